#!/bin/bash
# MANIFEST.setup_cmd: build the harness (both profiles) offline from files on disk only.
set -e
cd "$(dirname "$0")/harness"
export CARGO_NET_OFFLINE=true
cargo build --offline --profile release 2>&1 | tail -3
cargo build --offline --profile dbg 2>&1 | tail -3
echo "setup ok"
