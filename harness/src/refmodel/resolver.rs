//! Reference resolver of SCPI-99 6.2.4 compound-header paths over a `TreeSpec`.
//!
//! A *level* is a branch of the tree, identified by its index path from the root.
//! `resolve_unit` returns the designated leaf handler (or "undefined header") and the new level.

use crate::refmodel::mnemonic::ref_match;
use crate::rig::TreeSpec;

pub type Level = Vec<usize>;

#[derive(Clone, Debug, PartialEq, Eq, Hash)]
pub enum Hdr {
    /// `*XYZ`
    Common(Vec<u8>),
    /// `[:]a:b:c`
    Compound { leading_colon: bool, path: Vec<Vec<u8>> },
}

#[derive(Clone, Debug, PartialEq, Eq, Hash)]
pub struct UnitHdr {
    pub hdr: Hdr,
    pub query: bool,
}

impl UnitHdr {
    pub fn text(&self) -> Vec<u8> {
        let mut v = vec![];
        match &self.hdr {
            Hdr::Common(n) => v.extend_from_slice(n),
            Hdr::Compound { leading_colon, path } => {
                if *leading_colon {
                    v.push(b':');
                }
                for (i, m) in path.iter().enumerate() {
                    if i > 0 {
                        v.push(b':');
                    }
                    v.extend_from_slice(m);
                }
            }
        }
        if self.query {
            v.push(b'?');
        }
        v
    }
}

pub fn node_at<'a>(root: &'a TreeSpec, level: &[usize]) -> &'a TreeSpec {
    let mut n = root;
    for &i in level {
        match n {
            TreeSpec::Branch { sub, .. } => n = &sub[i],
            _ => unreachable!("level does not denote a branch"),
        }
    }
    n
}

fn children(n: &TreeSpec) -> &[TreeSpec] {
    match n {
        TreeSpec::Branch { sub, .. } => sub,
        _ => &[],
    }
}

fn name_matches(def: &str, cand: &[u8]) -> bool {
    if def.is_empty() {
        return false; // anonymous default leaf can never be spelled
    }
    if def.starts_with('*') {
        // common command mnemonics: case-insensitive equality (no abbreviation)
        return def.as_bytes().eq_ignore_ascii_case(cand);
    }
    if cand.starts_with(b"*") {
        return false;
    }
    ref_match(def.as_bytes(), cand).unwrap_or(false)
}

fn default_branch_idx(n: &TreeSpec) -> Option<usize> {
    children(n)
        .iter()
        .position(|c| matches!(c, TreeSpec::Branch { default: true, .. }))
}
fn default_leaf_idx(n: &TreeSpec) -> Option<usize> {
    children(n)
        .iter()
        .position(|c| matches!(c, TreeSpec::Leaf { default: true, .. }))
}

/// Outcome of resolving one unit header.
#[derive(Clone, Debug, PartialEq, Eq)]
pub enum Resolved {
    /// handler id of the designated leaf
    Handler(u8),
    /// -113 Undefined header
    Undefined,
}

/// Resolve `u` at `level` (`first` = first unit of the message). Returns the outcome, the new level,
/// and whether the resolution crossed a default node implicitly or was relative (non-trivial).
pub fn resolve_unit(root: &TreeSpec, level: &Level, first: bool, u: &UnitHdr) -> (Resolved, Level, bool) {
    match &u.hdr {
        Hdr::Common(name) => {
            // resolved at the root, level untouched
            for c in children(root) {
                if let TreeSpec::Leaf { name: n, handler, .. } = c {
                    if n.starts_with('*') && name_matches(n, name) {
                        return (Resolved::Handler(*handler), level.clone(), !level.is_empty());
                    }
                }
            }
            (Resolved::Undefined, level.clone(), false)
        }
        Hdr::Compound { leading_colon, path } => {
            let mut cur: Level = if first || *leading_colon { vec![] } else { level.clone() };
            let mut nontrivial = !(first || *leading_colon) && !cur.is_empty();
            let mut new_level = cur.clone();
            let mut target: Option<Level> = None;
            for (i, m) in path.iter().enumerate() {
                // find m among the children of `cur`, descending through default branches
                let found: Option<usize> = loop {
                    let node = node_at(root, &cur);
                    if let Some(ci) = children(node).iter().position(|c| name_matches(c.name(), m)) {
                        break Some(ci);
                    }
                    match default_branch_idx(node) {
                        Some(di) => {
                            cur.push(di);
                            nontrivial = true;
                        }
                        None => break None,
                    }
                };
                let ci = match found {
                    Some(ci) => ci,
                    None => return (Resolved::Undefined, level.clone(), nontrivial),
                };
                new_level = cur.clone();
                let mut t = cur.clone();
                t.push(ci);
                let child = node_at_any(root, &t);
                if i + 1 == path.len() {
                    target = Some(t);
                } else {
                    match child {
                        TreeSpec::Branch { .. } => cur = t,
                        TreeSpec::Leaf { .. } => return (Resolved::Undefined, level.clone(), nontrivial),
                    }
                }
            }
            // header ended on `target`
            let mut t = target.expect("empty path");
            loop {
                match node_at_any(root, &t) {
                    TreeSpec::Leaf { handler, .. } => return (Resolved::Handler(*handler), new_level, nontrivial),
                    b @ TreeSpec::Branch { .. } => {
                        nontrivial = true;
                        if let Some(li) = default_leaf_idx(b) {
                            t.push(li);
                        } else if let Some(di) = default_branch_idx(b) {
                            t.push(di);
                        } else {
                            return (Resolved::Undefined, level.clone(), nontrivial);
                        }
                    }
                }
            }
        }
    }
}

pub fn node_at_any<'a>(root: &'a TreeSpec, path: &[usize]) -> &'a TreeSpec {
    let mut n = root;
    for &i in path {
        n = &children(n)[i];
    }
    n
}

/// Reference execution of a whole message: handler invocations in order and the result.
#[derive(Clone, Debug, PartialEq, Eq)]
pub struct RefRun {
    pub calls: Vec<(u8, bool)>,
    /// None = Ok, Some(-113) = undefined header at unit `failed_at`
    pub error: Option<i16>,
    pub final_level: Level,
    pub nontrivial: bool,
}

pub fn run_message(root: &TreeSpec, units: &[UnitHdr]) -> RefRun {
    let mut level: Level = vec![];
    let mut calls = vec![];
    let mut nontrivial = false;
    for (i, u) in units.iter().enumerate() {
        let (r, nl, nt) = resolve_unit(root, &level, i == 0, u);
        nontrivial |= nt;
        match r {
            Resolved::Handler(h) => {
                calls.push((h, u.query));
                level = nl;
            }
            Resolved::Undefined => {
                return RefRun {
                    calls,
                    error: Some(-113),
                    final_level: level,
                    nontrivial,
                }
            }
        }
    }
    RefRun {
        calls,
        error: None,
        final_level: level,
        nontrivial,
    }
}

pub fn message_text(units: &[UnitHdr]) -> Vec<u8> {
    let mut v = vec![];
    for (i, u) in units.iter().enumerate() {
        if i > 0 {
            v.push(b';');
        }
        v.extend_from_slice(&u.text());
    }
    v
}
