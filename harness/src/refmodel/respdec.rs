//! Independent decoder of IEEE 488.2 section 8.7 response data elements (plus the SCPI-99
//! 7.2.1.4/5 NaN / infinity sentinels). Strict: returns None for anything malformed.

/// NR1: optional sign, one or more digits.
pub fn dec_int(s: &[u8]) -> Option<i128> {
    let (neg, d) = match s.first()? {
        b'-' => (true, &s[1..]),
        b'+' => (false, &s[1..]),
        _ => (false, s),
    };
    if d.is_empty() || d.len() > 38 || !d.iter().all(|c| c.is_ascii_digit()) {
        return None;
    }
    let mut v: i128 = 0;
    for c in d {
        v = v.checked_mul(10)?.checked_add((c - b'0') as i128)?;
    }
    Some(if neg { -v } else { v })
}

#[derive(Clone, Copy, Debug, PartialEq)]
pub enum FloatText<'a> {
    Nan,
    Inf,
    NegInf,
    /// a syntactically valid NRf literal
    Number(&'a str),
}

/// NR2 / NR3 (the NRf grammar every 488.2 listener accepts), or a SCPI sentinel.
/// `strict_talker` reports whether the text also obeys the stricter 8.7.4 talker form
/// (upper-case `E`, digits on both sides of the point).
pub fn dec_float(s: &[u8]) -> Option<(FloatText<'_>, bool)> {
    match s {
        b"9.91E+37" => return Some((FloatText::Nan, true)),
        b"9.9E+37" => return Some((FloatText::Inf, true)),
        b"-9.9E+37" => return Some((FloatText::NegInf, true)),
        _ => {}
    }
    let mut i = 0;
    if i < s.len() && (s[i] == b'-' || s[i] == b'+') {
        i += 1;
    }
    let d0 = i;
    while i < s.len() && s[i].is_ascii_digit() {
        i += 1;
    }
    let int_digits = i - d0;
    let mut frac_digits = 0;
    let mut strict = true;
    if i < s.len() && s[i] == b'.' {
        i += 1;
        let f0 = i;
        while i < s.len() && s[i].is_ascii_digit() {
            i += 1;
        }
        frac_digits = i - f0;
        if frac_digits == 0 || int_digits == 0 {
            strict = false;
        }
    }
    if int_digits + frac_digits == 0 {
        return None;
    }
    if i < s.len() && (s[i] == b'E' || s[i] == b'e') {
        if s[i] == b'e' {
            strict = false;
        }
        i += 1;
        if i < s.len() && (s[i] == b'-' || s[i] == b'+') {
            i += 1;
        } else {
            strict = false;
        }
        let e0 = i;
        while i < s.len() && s[i].is_ascii_digit() {
            i += 1;
        }
        if i == e0 {
            return None;
        }
    }
    if i != s.len() {
        return None;
    }
    Some((FloatText::Number(std::str::from_utf8(s).ok()?), strict))
}

/// `#H` / `#Q` / `#B` followed by upper-case digits of that radix.
pub fn dec_radix(s: &[u8], letter: u8, radix: u32) -> Option<u128> {
    if s.len() < 3 || s[0] != b'#' || s[1] != letter {
        return None;
    }
    let mut v: u128 = 0;
    for &c in &s[2..] {
        let d = match c {
            b'0'..=b'9' => (c - b'0') as u32,
            b'A'..=b'F' => (c - b'A') as u32 + 10,
            _ => return None,
        };
        if d >= radix {
            return None;
        }
        v = v.checked_mul(radix as u128)?.checked_add(d as u128)?;
    }
    Some(v)
}

/// `"..."` with embedded `"` doubled, 7-bit ASCII only. Returns the denoted bytes.
pub fn dec_string(s: &[u8]) -> Option<Vec<u8>> {
    if s.len() < 2 || s[0] != b'"' || s[s.len() - 1] != b'"' {
        return None;
    }
    let inner = &s[1..s.len() - 1];
    let mut out = vec![];
    let mut i = 0;
    while i < inner.len() {
        let c = inner[i];
        if !c.is_ascii() {
            return None;
        }
        if c == b'"' {
            if inner.get(i + 1) == Some(&b'"') {
                out.push(b'"');
                i += 2;
                continue;
            }
            return None;
        }
        out.push(c);
        i += 1;
    }
    Some(out)
}

/// Definite length block `#<n><len><payload>`; the whole input must be consumed.
pub fn dec_block(s: &[u8]) -> Option<&[u8]> {
    if s.len() < 3 || s[0] != b'#' {
        return None;
    }
    let n = match s[1] {
        b'1'..=b'9' => (s[1] - b'0') as usize,
        _ => return None,
    };
    if s.len() < 2 + n {
        return None;
    }
    let mut len = 0usize;
    for &c in &s[2..2 + n] {
        if !c.is_ascii_digit() {
            return None;
        }
        len = len * 10 + (c - b'0') as usize;
    }
    if s.len() != 2 + n + len {
        return None;
    }
    Some(&s[2 + n..])
}

/// Character response data: a mnemonic of at most 12 characters.
pub fn dec_chr(s: &[u8]) -> Option<&[u8]> {
    if s.is_empty() || s.len() > 12 || !s[0].is_ascii_alphabetic() || !s.iter().all(|c| c.is_ascii_alphanumeric() || *c == b'_') {
        return None;
    }
    Some(s)
}

/// Expression response data `( ... )`.
pub fn dec_expr(s: &[u8]) -> Option<&[u8]> {
    if s.len() < 2 || s[0] != b'(' || s[s.len() - 1] != b')' {
        return None;
    }
    let inner = &s[1..s.len() - 1];
    if inner.iter().any(|c| matches!(c, b'(' | b')' | b'"' | b'\'' | b';' | b'#') || !c.is_ascii()) {
        return None;
    }
    Some(inner)
}

/// Split a response at top-level commas (outside strings, blocks and parentheses).
pub fn split_list(s: &[u8]) -> Option<Vec<&[u8]>> {
    let mut out = vec![];
    let mut st = 0;
    let mut i = 0;
    while i < s.len() {
        match s[i] {
            b'"' => {
                i += 1;
                loop {
                    match s.get(i)? {
                        b'"' => {
                            if s.get(i + 1) == Some(&b'"') {
                                i += 2;
                            } else {
                                i += 1;
                                break;
                            }
                        }
                        _ => i += 1,
                    }
                }
            }
            b'(' => {
                while *s.get(i)? != b')' {
                    i += 1;
                }
                i += 1;
            }
            b'#' if s.get(i + 1).map_or(false, |c| c.is_ascii_digit() && *c != b'0') => {
                let n = (s[i + 1] - b'0') as usize;
                let mut len = 0usize;
                for k in 0..n {
                    let c = *s.get(i + 2 + k)?;
                    if !c.is_ascii_digit() {
                        return None;
                    }
                    len = len * 10 + (c - b'0') as usize;
                }
                i += 2 + n + len;
                if i > s.len() {
                    return None;
                }
            }
            b',' => {
                out.push(&s[st..i]);
                i += 1;
                st = i;
            }
            _ => i += 1,
        }
    }
    out.push(&s[st..]);
    Some(out)
}

pub fn self_check() -> Result<(), String> {
    let ok = dec_int(b"-128") == Some(-128)
        && dec_int(b"1.0").is_none()
        && dec_int(b"").is_none()
        && matches!(dec_float(b"1.0e10"), Some((FloatText::Number("1.0e10"), false)))
        && matches!(dec_float(b"1.5E+3"), Some((FloatText::Number(_), true)))
        && matches!(dec_float(b"9.91E+37"), Some((FloatText::Nan, _)))
        && dec_float(b"1.0e").is_none()
        && dec_float(b"abc").is_none()
        && dec_radix(b"#HFF", b'H', 16) == Some(255)
        && dec_radix(b"#Hff", b'H', 16).is_none()
        && dec_radix(b"#Q8", b'Q', 8).is_none()
        && dec_string(b"\"a\"\"b\"") == Some(b"a\"b".to_vec())
        && dec_string(b"\"a\"b\"").is_none()
        && dec_block(b"#13abc") == Some(&b"abc"[..])
        && dec_block(b"#13abcd").is_none()
        && dec_block(b"#210abcdefghij") == Some(&b"abcdefghij"[..])
        && dec_chr(b"ABC_1") == Some(&b"ABC_1"[..])
        && dec_chr(b"1A").is_none()
        && dec_expr(b"(1,2)") == Some(&b"1,2"[..])
        && split_list(b"1,\"a,b\",#13x,y,(1,2)").map(|v| v.len()) == Some(4);
    if ok {
        Ok(())
    } else {
        Err("respdec self-check failed".into())
    }
}
