//! Reference recogniser / lexer for IEEE 488.2 section 7 program messages.
//!
//! Three-valued: `Accept(elements)` (well-formed: this exact decomposition is required),
//! `Reject(class)` (the input violates 488.2 in one of the ways the property lists: it must be
//! refused with a command error), `Unspec(reason)` (anything else: no verdict).
//! Written from the syntax diagrams of 488.2 7.3-7.7; allocation-free (fixed-size output).

use arrayvec::ArrayVec;

pub type R = (u16, u16);

#[derive(Clone, Copy, Debug, PartialEq, Eq)]
pub enum Tok {
    Colon,
    Query,
    Semi,
    HeaderSep,
    Comma,
    Mnemonic(R),
    Chr(R),
    Num(R),
    NumSuffix(R, R),
    NonDec(u64),
    Str(R),
    Block(R),
    Expr(R),
}

impl Tok {
    pub fn is_data(&self) -> bool {
        matches!(
            self,
            Tok::Chr(_) | Tok::Num(_) | Tok::NumSuffix(..) | Tok::NonDec(_) | Tok::Str(_) | Tok::Block(_) | Tok::Expr(_)
        )
    }
}

pub const MAX_TOKS: usize = 64;
pub type Toks = ArrayVec<Tok, MAX_TOKS>;

#[derive(Clone, Copy, Debug, PartialEq, Eq, Hash)]
pub enum Class {
    TooLong,
    UnterminatedString,
    BadBlock,
    NonAscii,
    MisplacedColon,
    MisplacedComma,
    MissingSeparator,
}

impl Class {
    pub fn name(self) -> &'static str {
        match self {
            Class::TooLong => "element-longer-than-12",
            Class::UnterminatedString => "unterminated-string",
            Class::BadBlock => "truncated-or-malformed-block",
            Class::NonAscii => "non-ascii-outside-block",
            Class::MisplacedColon => "misplaced-colon",
            Class::MisplacedComma => "misplaced-comma",
            Class::MissingSeparator => "missing-separator-after-datum",
        }
    }
    /// lexical classes must be refused by the tokenizer itself
    pub fn lexical(self) -> bool {
        matches!(self, Class::TooLong | Class::UnterminatedString | Class::BadBlock | Class::NonAscii)
    }
}

#[derive(Clone, Debug, PartialEq, Eq)]
pub enum Verdict {
    Accept(Toks),
    Reject(Class),
    /// not one of the listed command-error classes, but accepting it would necessarily
    /// misrepresent the input (a non-decimal literal whose value does not fit the lexer's value
    /// type cannot "carry its exact value"): it must be refused with *some* error
    MustNotAccept(&'static str),
    Unspec(&'static str),
}

fn is_ws(c: u8) -> bool {
    // 488.2 white space representatives: SP, TAB, CR, FF (NL is the terminator; other control
    // bytes are white space in 488.2 too but are left unspecified here)
    c == b' ' || c == b'\t' || c == b'\r' || c == 0x0c
}
fn is_mn(c: u8) -> bool {
    c.is_ascii_alphanumeric() || c == b'_'
}

struct P<'a> {
    s: &'a [u8],
    i: usize,
    out: Toks,
}

type Res<T> = Result<T, Verdict>;

fn rej<T>(c: Class) -> Res<T> {
    Err(Verdict::Reject(c))
}
fn uns<T>(r: &'static str) -> Res<T> {
    Err(Verdict::Unspec(r))
}

impl<'a> P<'a> {
    fn peek(&self) -> Option<u8> {
        self.s.get(self.i).copied()
    }
    fn push(&mut self, t: Tok) -> Res<()> {
        self.out.try_push(t).map_err(|_| Verdict::Unspec("too many elements for the reference"))
    }
    fn skip_ws(&mut self) -> bool {
        let st = self.i;
        while self.peek().map_or(false, is_ws) {
            self.i += 1;
        }
        self.i > st
    }
    fn r(&self, a: usize, b: usize) -> R {
        (a as u16, b as u16)
    }

    /// reads [A-Za-z][A-Za-z0-9_]*; caller guarantees the first byte is alphabetic
    fn mnemonic(&mut self) -> Res<R> {
        let st = self.i;
        while self.peek().map_or(false, is_mn) {
            self.i += 1;
        }
        if self.i - st > 12 {
            return rej(Class::TooLong);
        }
        Ok(self.r(st, self.i))
    }

    /// true if at the (possibly ws-preceded) terminator or end of input
    fn at_end_or_terminator(&mut self) -> Res<bool> {
        match self.peek() {
            None => Ok(true),
            Some(b'\n') => {
                if self.i + 1 == self.s.len() {
                    self.i += 1;
                    Ok(true)
                } else {
                    uns("NL before the end of the message")
                }
            }
            _ => Ok(false),
        }
    }

    fn message(&mut self) -> Res<()> {
        let mut first = true;
        loop {
            self.skip_ws();
            if self.at_end_or_terminator()? {
                // empty message, or empty unit after a trailing `;`
                return Ok(());
            }
            if self.peek() == Some(b';') {
                return uns("empty message unit");
            }
            self.unit()?;
            let _ = first;
            first = false;
            self.skip_ws();
            if self.at_end_or_terminator()? {
                return Ok(());
            }
            match self.peek() {
                Some(b';') => {
                    self.i += 1;
                    self.push(Tok::Semi)?;
                }
                _ => return uns("internal: unit ended on unexpected byte"),
            }
        }
    }

    fn unit(&mut self) -> Res<()> {
        // ---- header
        let c = self.peek().unwrap();
        let mut common = false;
        if c == b'*' {
            common = true;
            self.i += 1;
            match self.peek() {
                Some(x) if x.is_ascii_alphabetic() => {
                    let st = self.i - 1;
                    let (_, e) = self.mnemonic()?;
                    if e as usize - st > 12 {
                        // `*` + 12 characters: the standard counts the mnemonic, the library the star too
                        return uns("common mnemonic of exactly 12 characters");
                    }
                    self.push(Tok::Mnemonic(self.r(st, e as usize)))?;
                }
                Some(x) if !x.is_ascii() => return rej(Class::NonAscii),
                _ => return uns("`*` not followed by a mnemonic"),
            }
        } else {
            if c == b':' {
                self.i += 1;
                self.push(Tok::Colon)?;
                match self.peek() {
                    Some(x) if x.is_ascii_alphabetic() => {}
                    Some(x) if !x.is_ascii() => return rej(Class::NonAscii),
                    _ => return rej(Class::MisplacedColon),
                }
            } else if c == b',' {
                return rej(Class::MisplacedComma);
            } else if !c.is_ascii() {
                return rej(Class::NonAscii);
            } else if !c.is_ascii_alphabetic() {
                return uns("unit does not start with a header");
            }
            loop {
                let m = self.mnemonic()?;
                self.push(Tok::Mnemonic(m))?;
                if self.peek() == Some(b':') {
                    self.i += 1;
                    self.push(Tok::Colon)?;
                    match self.peek() {
                        Some(x) if x.is_ascii_alphabetic() => continue,
                        Some(x) if !x.is_ascii() => return rej(Class::NonAscii),
                        _ => return rej(Class::MisplacedColon),
                    }
                }
                break;
            }
        }
        // after the last mnemonic
        match self.peek() {
            Some(b'?') => {
                self.i += 1;
                self.push(Tok::Query)?;
                match self.peek() {
                    None | Some(b';') | Some(b'\n') => {}
                    Some(x) if is_ws(x) => {}
                    Some(x) if !x.is_ascii() => return rej(Class::NonAscii),
                    _ => return uns("byte directly after `?`"),
                }
            }
            Some(b':') if common => return rej(Class::MisplacedColon),
            _ => {}
        }
        match self.peek() {
            None | Some(b';') | Some(b'\n') => return Ok(()),
            Some(b',') => return rej(Class::MisplacedComma),
            Some(x) if is_ws(x) => {}
            Some(x) if !x.is_ascii() => return rej(Class::NonAscii),
            _ => return uns("header not followed by separator"),
        }
        // ---- header separator
        self.skip_ws();
        match self.peek() {
            None | Some(b';') => return Ok(()),
            Some(b'\n') => return Ok(()),
            _ => {}
        }
        self.push(Tok::HeaderSep)?;
        // ---- data list
        let mut first = true;
        loop {
            match self.peek() {
                None | Some(b';') | Some(b'\n') => {
                    if first {
                        unreachable!()
                    } else {
                        return rej(Class::MisplacedComma); // `A 1,`
                    }
                }
                Some(b',') => return rej(Class::MisplacedComma),
                Some(b':') => return rej(Class::MisplacedColon),
                _ => {}
            }
            self.datum()?;
            first = false;
            self.skip_ws();
            match self.peek() {
                None | Some(b';') | Some(b'\n') => return Ok(()),
                Some(b',') => {
                    self.i += 1;
                    self.push(Tok::Comma)?;
                    self.skip_ws();
                }
                Some(x) if !x.is_ascii() => return rej(Class::NonAscii),
                Some(b':') => return rej(Class::MisplacedColon),
                _ => return rej(Class::MissingSeparator),
            }
        }
    }

    fn datum(&mut self) -> Res<()> {
        let c = self.peek().unwrap();
        match c {
            c if c.is_ascii_alphabetic() => {
                let m = self.mnemonic()?;
                self.push(Tok::Chr(m))
            }
            c if c.is_ascii_digit() || c == b'+' || c == b'-' || c == b'.' => self.number(),
            b'#' => self.hash(),
            b'"' | b'\'' => self.string(c),
            b'(' => self.expression(),
            c if !c.is_ascii() => rej(Class::NonAscii),
            _ => uns("byte that starts no data element"),
        }
    }

    fn digits(&mut self) -> usize {
        let st = self.i;
        while self.peek().map_or(false, |c| c.is_ascii_digit()) {
            self.i += 1;
        }
        self.i - st
    }

    fn number(&mut self) -> Res<()> {
        let st = self.i;
        if matches!(self.peek(), Some(b'+') | Some(b'-')) {
            self.i += 1;
        }
        let lead = self.digits();
        let mut frac = 0;
        let mut dot = false;
        if self.peek() == Some(b'.') {
            dot = true;
            self.i += 1;
            frac = self.digits();
        }
        if lead == 0 && frac == 0 {
            return uns("malformed mantissa");
        }
        let _ = dot;
        // exponent
        if matches!(self.peek(), Some(b'E') | Some(b'e')) {
            let save = self.i;
            self.i += 1;
            if matches!(self.peek(), Some(b'+') | Some(b'-')) {
                self.i += 1;
            }
            if self.digits() == 0 {
                self.i = save;
                return uns("`E` after a mantissa without exponent digits (exponent or suffix)");
            }
        }
        let num = self.r(st, self.i);
        // optional suffix
        let had_ws = self.skip_ws();
        match self.peek() {
            Some(c) if c.is_ascii_alphabetic() || c == b'/' => {
                if (c == b'E' || c == b'e') && had_ws {
                    return uns("white space between mantissa and `E`");
                }
                let ss = self.i;
                while self.peek().map_or(false, |c| c.is_ascii_alphanumeric() || c == b'-' || c == b'/' || c == b'.') {
                    self.i += 1;
                }
                if self.i - ss > 12 {
                    return rej(Class::TooLong);
                }
                if !valid_suffix(&self.s[ss..self.i]) {
                    return uns("suffix outside the 488.2 suffix grammar");
                }
                self.push(Tok::NumSuffix(num, self.r(ss, self.i)))
            }
            _ => self.push(Tok::Num(num)),
        }
    }

    fn hash(&mut self) -> Res<()> {
        self.i += 1;
        let c = match self.peek() {
            None => return rej(Class::BadBlock),
            Some(c) => c,
        };
        match c {
            b'H' | b'h' | b'Q' | b'q' | b'B' | b'b' => {
                self.i += 1;
                let radix: u32 = match c.to_ascii_uppercase() {
                    b'H' => 16,
                    b'Q' => 8,
                    _ => 2,
                };
                let st = self.i;
                let mut v: u64 = 0;
                let mut overflow = false;
                while let Some(d) = self.peek().and_then(|c| (c as char).to_digit(radix)) {
                    let (m, o1) = v.overflowing_mul(radix as u64);
                    let (a, o2) = m.overflowing_add(d as u64);
                    overflow |= o1 || o2;
                    v = a;
                    self.i += 1;
                }
                if self.i == st {
                    if matches!(self.peek(), Some(b'+') | Some(b'-')) {
                        return uns("sign in a non-decimal literal");
                    }
                    // not one of the listed violation classes, but there is no value it could denote
                    return Err(Verdict::MustNotAccept("non-decimal literal without digits"));
                }
                if overflow {
                    return Err(Verdict::MustNotAccept("non-decimal literal above 64 bits"));
                }
                self.push(Tok::NonDec(v))
            }
            b'1'..=b'9' => {
                self.i += 1;
                let n = (c - b'0') as usize;
                if self.i + n > self.s.len() {
                    return rej(Class::BadBlock);
                }
                let mut len: usize = 0;
                for k in 0..n {
                    let d = self.s[self.i + k];
                    if !d.is_ascii_digit() {
                        return rej(Class::BadBlock);
                    }
                    len = len * 10 + (d - b'0') as usize;
                }
                self.i += n;
                if self.i + len > self.s.len() {
                    return rej(Class::BadBlock);
                }
                let r = self.r(self.i, self.i + len);
                self.i += len;
                self.push(Tok::Block(r))
            }
            b'0' => {
                self.i += 1;
                // indefinite: everything up to the final NL
                if self.s.last() != Some(&b'\n') || self.i >= self.s.len() {
                    return rej(Class::BadBlock);
                }
                let r = self.r(self.i, self.s.len() - 1);
                self.i = self.s.len() - 1;
                self.push(Tok::Block(r))
            }
            c if !c.is_ascii() => rej(Class::NonAscii),
            c if c.is_ascii_alphabetic() => Err(Verdict::MustNotAccept("`#` followed by a letter that is no radix letter")),
            _ => uns("`#` followed by neither radix letter nor digit"),
        }
    }

    fn string(&mut self, q: u8) -> Res<()> {
        self.i += 1;
        let st = self.i;
        loop {
            match self.peek() {
                None => return rej(Class::UnterminatedString),
                Some(c) if c == q => {
                    if self.s.get(self.i + 1) == Some(&q) {
                        self.i += 2;
                    } else {
                        let r = self.r(st, self.i);
                        self.i += 1;
                        return self.push(Tok::Str(r));
                    }
                }
                Some(c) if !c.is_ascii() => {
                    // a string that is never closed is unterminated first
                    return rej(Class::NonAscii);
                }
                Some(_) => self.i += 1,
            }
        }
    }

    fn expression(&mut self) -> Res<()> {
        self.i += 1;
        let st = self.i;
        loop {
            match self.peek() {
                None => return uns("unterminated expression"),
                Some(b')') => {
                    let r = self.r(st, self.i);
                    self.i += 1;
                    return self.push(Tok::Expr(r));
                }
                Some(b'(') | Some(b'"') | Some(b'\'') | Some(b';') | Some(b'#') => return uns("character not allowed inside expression data"),
                Some(c) if !c.is_ascii() => return rej(Class::NonAscii),
                Some(c) if c < 0x20 || c == 0x7f => return uns("control character inside expression data"),
                Some(_) => self.i += 1,
            }
        }
    }
}

/// 488.2 7.7.3.2: ['/'] unit { ('/'|'.') unit }, unit = letters ['-'] [digit]
pub fn valid_suffix(s: &[u8]) -> bool {
    let mut i = 0;
    if s.first() == Some(&b'/') {
        i = 1;
    }
    loop {
        let st = i;
        while i < s.len() && s[i].is_ascii_alphabetic() {
            i += 1;
        }
        if i == st {
            return false;
        }
        if i < s.len() && s[i] == b'-' {
            i += 1;
            if !(i < s.len() && s[i].is_ascii_digit()) {
                return false;
            }
        }
        if i < s.len() && s[i].is_ascii_digit() {
            i += 1;
        }
        if i == s.len() {
            return true;
        }
        if s[i] == b'/' || s[i] == b'.' {
            i += 1;
            continue;
        }
        return false;
    }
}

pub fn lex(s: &[u8]) -> Verdict {
    if s.len() > 60000 {
        return Verdict::Unspec("too long for the reference");
    }
    // bytes the reference does not reason about anywhere outside block payloads are handled by
    // the per-position rules (non-ASCII => reject, controls => unspecified where they appear)
    let mut p = P {
        s,
        i: 0,
        out: Toks::new(),
    };
    match p.message() {
        Ok(()) => {
            if p.i != s.len() {
                return Verdict::Unspec("internal: trailing input");
            }
            Verdict::Accept(p.out)
        }
        Err(Verdict::Reject(c)) => {
            // a NL that is not the last byte, at or before the point of failure, makes the input a
            // sequence of messages rather than one message: no verdict
            let upto = (p.i + 2).min(s.len());
            if s[..upto].iter().enumerate().any(|(i, b)| *b == b'\n' && i + 1 < s.len()) {
                return Verdict::Unspec("NL before the end of the message");
            }
            Verdict::Reject(c)
        }
        Err(v) => v,
    }
}

/// Drop header-separator elements that are not followed by a datum (488.2 has no such element).
pub fn normalise(t: &mut Toks) {
    let mut i = 0;
    while i < t.len() {
        if t[i] == Tok::HeaderSep && !(i + 1 < t.len() && t[i + 1].is_data()) {
            t.remove(i);
        } else {
            i += 1;
        }
    }
}

pub fn self_check() -> Result<(), String> {
    use Tok::*;
    let acc: &[(&[u8], &[Tok])] = &[
        (b"", &[]),
        (b"\n", &[]),
        (b"*IDN?", &[Mnemonic((0, 4)), Query]),
        (b"A", &[Mnemonic((0, 1))]),
        (b":A:B?;C 1,2\n", &[Colon, Mnemonic((1, 2)), Colon, Mnemonic((3, 4)), Query, Semi, Mnemonic((6, 7)), HeaderSep, Num((8, 9)), Comma, Num((10, 11))]),
        (b"A \"a;b\",'c''d'", &[Mnemonic((0, 1)), HeaderSep, Str((3, 6)), Comma, Str((9, 13))]),
        (b"A #13;,;;B", &[Mnemonic((0, 1)), HeaderSep, Block((5, 8)), Semi, Mnemonic((9, 10))]),
        (b"A #0ab;\n", &[Mnemonic((0, 1)), HeaderSep, Block((4, 7))]),
        (b"A #HfF , #Q17,#b101", &[Mnemonic((0, 1)), HeaderSep, NonDec(255), Comma, NonDec(15), Comma, NonDec(5)]),
        (b"A -1.5E+3 MV", &[Mnemonic((0, 1)), HeaderSep, NumSuffix((2, 9), (10, 12))]),
        (b"A 1V/S", &[Mnemonic((0, 1)), HeaderSep, NumSuffix((2, 3), (3, 6))]),
        (b"A (@1,2:3)", &[Mnemonic((0, 1)), HeaderSep, Expr((3, 9))]),
        (b"A ABC_1 ;", &[Mnemonic((0, 1)), HeaderSep, Chr((2, 7)), Semi]),
        (b" A", &[Mnemonic((1, 2))]),
        (b"A ;B", &[Mnemonic((0, 1)), Semi, Mnemonic((3, 4))]),
        (b"A;", &[Mnemonic((0, 1)), Semi]),
    ];
    for (s, want) in acc {
        match lex(s) {
            Verdict::Accept(mut t) => {
                normalise(&mut t);
                if &t[..] != *want {
                    return Err(format!("lex488 self-check: `{}` -> {:?}, expected {:?}", crate::core::esc(s), t, want));
                }
            }
            v => return Err(format!("lex488 self-check: `{}` -> {:?}, expected accept", crate::core::esc(s), v)),
        }
    }
    let rejs: &[(&[u8], Class)] = &[
        (b"ABCDEFGHIJKLM", Class::TooLong),
        (b"A ABCDEFGHIJKLM", Class::TooLong),
        (b"A 1 ABCDEFGHIJKLM", Class::TooLong),
        (b"A \"abc", Class::UnterminatedString),
        (b"A 'abc''", Class::UnterminatedString),
        (b"A #15abc", Class::BadBlock),
        (b"A #2x1a", Class::BadBlock),
        (b"A #2+5hello", Class::BadBlock),
        (b"A #0abc", Class::BadBlock),
        (b"A #", Class::BadBlock),
        (b"A \x80", Class::NonAscii),
        (b"A\x80", Class::NonAscii),
        (b"A \"\x80\"", Class::NonAscii),
        (b"A::B", Class::MisplacedColon),
        (b"A:", Class::MisplacedColon),
        (b"*A:B", Class::MisplacedColon),
        (b"A :B", Class::MisplacedColon),
        (b"A,B", Class::MisplacedComma),
        (b"A ,1", Class::MisplacedComma),
        (b"A 1,,2", Class::MisplacedComma),
        (b"A 1,", Class::MisplacedComma),
        (b"A 1 2", Class::MissingSeparator),
        (b"A \"a\"\"b\" 'c'", Class::MissingSeparator),
        (b"A #HFFG", Class::MissingSeparator),
    ];
    for (s, c) in rejs {
        let v = lex(s);
        if v != Verdict::Reject(*c) {
            return Err(format!("lex488 self-check: `{}` -> {:?}, expected reject {:?}", crate::core::esc(s), v, c));
        }
    }
    if !matches!(lex(b"A #H10000000000000000"), Verdict::MustNotAccept(_)) || !matches!(lex(b"A #HFFFFFFFFFFFFFFFF"), Verdict::Accept(_)) {
        return Err("lex488 self-check: non-decimal overflow".into());
    }
    let uns: &[&[u8]] = &[b"A 1 E5", b"A #H+FF", b"A 1\nB", b"A;;B", b"A?B", b"1A", b"A 1E", b"A (1;2)", b"A (1", b"A \x00", b"A ?"];
    for s in uns {
        if !matches!(lex(s), Verdict::Unspec(_)) {
            return Err(format!("lex488 self-check: `{}` -> {:?}, expected unspecified", crate::core::esc(s), lex(s)));
        }
    }
    Ok(())
}
