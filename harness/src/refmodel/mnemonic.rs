//! Reference mnemonic matcher (SCPI-99 6.2.1 short/long form, 6.2.5.2 numeric suffix default 1).
//! Three-valued: `Some(true)` must match, `Some(false)` must not match, `None` unspecified.

/// Split `LONGform[n]` of SCPI shape into (upper-case short form, full long form, suffix).
/// Returns None if `def` is not of SCPI shape `[A-Z]+[a-z]*[0-9]*` with non-empty alphabetic part.
pub fn split_def(def: &[u8]) -> Option<(&[u8], &[u8], &[u8])> {
    let nd = def.iter().rev().take_while(|c| c.is_ascii_digit()).count();
    let (alpha, suffix) = def.split_at(def.len() - nd);
    let nu = alpha.iter().take_while(|c| c.is_ascii_uppercase()).count();
    if nu == 0 {
        return None;
    }
    if !alpha[nu..].iter().all(|c| c.is_ascii_lowercase()) {
        return None;
    }
    Some((&alpha[..nu], alpha, suffix))
}

fn canon_suffix(s: &[u8]) -> Option<&[u8]> {
    // absent suffix means 1; a suffix with leading zeros is outside what the property pins
    if s.is_empty() {
        Some(b"1")
    } else if s[0] == b'0' && s.len() > 1 {
        None
    } else {
        Some(s)
    }
}

/// Does candidate `cand` match the defined mnemonic `def` (with the default-1 suffix rule)?
pub fn ref_match(def: &[u8], cand: &[u8]) -> Option<bool> {
    let (short, long, dsuf) = split_def(def)?;
    let nd = cand.iter().rev().take_while(|c| c.is_ascii_digit()).count();
    let (calpha, csuf) = cand.split_at(cand.len() - nd);
    let alpha_ok = calpha.eq_ignore_ascii_case(short) || calpha.eq_ignore_ascii_case(long);
    if !alpha_ok {
        return Some(false);
    }
    match (canon_suffix(dsuf), canon_suffix(csuf)) {
        (Some(a), Some(b)) => Some(a == b),
        _ => None,
    }
}

/// Keyword comparison without suffix rule (`mnemonic_compare` on suffix-less keywords):
/// exactly the short or the long form, ignoring case.
pub fn ref_compare_keyword(def: &[u8], cand: &[u8]) -> Option<bool> {
    let (short, long, dsuf) = split_def(def)?;
    if !dsuf.is_empty() {
        return None;
    }
    Some(cand.eq_ignore_ascii_case(short) || cand.eq_ignore_ascii_case(long))
}

/// "Interesting" candidates: the alphabetic part is a case-insensitive prefix of the long form
/// (covers short form, long form, partial long forms and under-length abbreviations).
pub fn near(def: &[u8], cand: &[u8]) -> bool {
    if let Some((_, long, _)) = split_def(def) {
        let nd = cand.iter().rev().take_while(|c| c.is_ascii_digit()).count();
        let calpha = &cand[..cand.len() - nd];
        !calpha.is_empty() && calpha.len() <= long.len() && long[..calpha.len()].eq_ignore_ascii_case(calpha)
    } else {
        false
    }
}

pub fn self_check() -> Result<(), String> {
    let t: &[(&[u8], &[u8], Option<bool>)] = &[
        (b"TRIGger", b"TRIG", Some(true)),
        (b"TRIGger", b"trigger", Some(true)),
        (b"TRIGger", b"TRIGG", Some(false)),
        (b"TRIGger", b"TRI", Some(false)),
        (b"TRIGger", b"TRIGGERS", Some(false)),
        (b"TRIGger", b"TRIG1", Some(true)),
        (b"TRIGger", b"TRIG2", Some(false)),
        (b"TRIGger2", b"TRIG", Some(false)),
        (b"TRIGger2", b"trigger2", Some(true)),
        (b"TRIGger1", b"TRIG", Some(true)),
        (b"L125", b"L125", Some(true)),
        (b"L125", b"L1", Some(false)),
        (b"L125", b"L", Some(false)),
        (b"ASCii1", b"ascii", Some(true)),
        (b"ASCii2", b"ascii", Some(false)),
        (b"BINary", b"bin1", Some(true)),
        (b"REAL", b"real", Some(true)),
        (b"TRIGger", b"TRIG01", None),
        (b"TRIGger", b"TRIG0", Some(false)),
    ];
    for (d, c, e) in t {
        let g = ref_match(d, c);
        if g != *e {
            return Err(format!(
                "mnemonic oracle self-check: ref_match({}, {}) = {:?}, expected {:?}",
                String::from_utf8_lossy(d),
                String::from_utf8_lossy(c),
                g,
                e
            ));
        }
    }
    Ok(())
}
