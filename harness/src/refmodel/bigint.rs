//! Minimal arbitrary-precision integers for the exact decimal oracles (schoolbook, base 2^32).

use std::cmp::Ordering;

#[derive(Clone, Debug, PartialEq, Eq)]
pub struct BigUint(pub Vec<u32>); // little endian, no trailing zeros

impl BigUint {
    pub fn zero() -> Self {
        BigUint(vec![])
    }
    pub fn from_u128(mut v: u128) -> Self {
        let mut d = vec![];
        while v > 0 {
            d.push(v as u32);
            v >>= 32;
        }
        BigUint(d)
    }
    pub fn is_zero(&self) -> bool {
        self.0.is_empty()
    }
    fn trim(&mut self) {
        while self.0.last() == Some(&0) {
            self.0.pop();
        }
    }
    pub fn mul_small(&mut self, m: u32) {
        let mut carry = 0u64;
        for d in self.0.iter_mut() {
            let x = *d as u64 * m as u64 + carry;
            *d = x as u32;
            carry = x >> 32;
        }
        if carry > 0 {
            self.0.push(carry as u32);
        }
        self.trim();
    }
    pub fn add_small(&mut self, a: u32) {
        let mut carry = a as u64;
        for d in self.0.iter_mut() {
            if carry == 0 {
                break;
            }
            let x = *d as u64 + carry;
            *d = x as u32;
            carry = x >> 32;
        }
        if carry > 0 {
            self.0.push(carry as u32);
        }
    }
    pub fn from_decimal(s: &[u8]) -> Self {
        let mut r = BigUint::zero();
        for &c in s {
            assert!(c.is_ascii_digit());
            r.mul_small(10);
            r.add_small((c - b'0') as u32);
        }
        r
    }
    pub fn mul_pow10(&mut self, n: u32) {
        let mut n = n;
        while n >= 9 {
            self.mul_small(1_000_000_000);
            n -= 9;
        }
        for _ in 0..n {
            self.mul_small(10);
        }
    }
    pub fn mul_pow5(&mut self, n: u32) {
        let mut n = n;
        while n >= 13 {
            self.mul_small(1_220_703_125);
            n -= 13;
        }
        for _ in 0..n {
            self.mul_small(5);
        }
    }
    pub fn shl(&mut self, bits: u32) {
        if self.is_zero() {
            return;
        }
        let words = (bits / 32) as usize;
        let b = bits % 32;
        if b > 0 {
            let mut carry = 0u32;
            for d in self.0.iter_mut() {
                let x = (*d as u64) << b | carry as u64;
                *d = x as u32;
                carry = (x >> 32) as u32;
            }
            if carry > 0 {
                self.0.push(carry);
            }
        }
        if words > 0 {
            let mut v = vec![0u32; words];
            v.extend_from_slice(&self.0);
            self.0 = v;
        }
    }
    pub fn add(&self, o: &BigUint) -> BigUint {
        let (a, b) = if self.0.len() >= o.0.len() { (self, o) } else { (o, self) };
        let mut r = a.0.clone();
        let mut carry = 0u64;
        for i in 0..r.len() {
            let x = r[i] as u64 + *b.0.get(i).unwrap_or(&0) as u64 + carry;
            r[i] = x as u32;
            carry = x >> 32;
            if carry == 0 && i >= b.0.len() {
                break;
            }
        }
        if carry > 0 {
            r.push(carry as u32);
        }
        BigUint(r)
    }
    /// self - o, requires self >= o
    pub fn sub(&self, o: &BigUint) -> BigUint {
        debug_assert!(self.cmp(o) != Ordering::Less);
        let mut r = self.0.clone();
        let mut borrow = 0i64;
        for i in 0..r.len() {
            let x = r[i] as i64 - *o.0.get(i).unwrap_or(&0) as i64 - borrow;
            if x < 0 {
                r[i] = (x + (1i64 << 32)) as u32;
                borrow = 1;
            } else {
                r[i] = x as u32;
                borrow = 0;
            }
        }
        let mut r = BigUint(r);
        r.trim();
        r
    }
    pub fn cmp(&self, o: &BigUint) -> Ordering {
        if self.0.len() != o.0.len() {
            return self.0.len().cmp(&o.0.len());
        }
        for i in (0..self.0.len()).rev() {
            if self.0[i] != o.0[i] {
                return self.0[i].cmp(&o.0[i]);
            }
        }
        Ordering::Equal
    }
    pub fn to_u128(&self) -> Option<u128> {
        if self.0.len() > 4 {
            return None;
        }
        let mut v = 0u128;
        for (i, d) in self.0.iter().enumerate() {
            v |= (*d as u128) << (32 * i);
        }
        Some(v)
    }
    pub fn bits(&self) -> u32 {
        match self.0.last() {
            None => 0,
            Some(t) => (self.0.len() as u32 - 1) * 32 + (32 - t.leading_zeros()),
        }
    }
    /// divide by small, return remainder
    pub fn divrem_small(&mut self, d: u32) -> u32 {
        let mut rem = 0u64;
        for x in self.0.iter_mut().rev() {
            let cur = (rem << 32) | *x as u64;
            *x = (cur / d as u64) as u32;
            rem = cur % d as u64;
        }
        self.trim();
        rem as u32
    }
    pub fn to_decimal(&self) -> String {
        if self.is_zero() {
            return "0".into();
        }
        let mut t = self.clone();
        let mut parts = vec![];
        while !t.is_zero() {
            parts.push(t.divrem_small(1_000_000_000));
        }
        let mut s = format!("{}", parts.pop().unwrap());
        while let Some(p) = parts.pop() {
            s.push_str(&format!("{:09}", p));
        }
        s
    }
}

/// Signed big integer.
#[derive(Clone, Debug, PartialEq, Eq)]
pub struct BigInt {
    pub neg: bool,
    pub mag: BigUint,
}

impl BigInt {
    pub fn new(neg: bool, mag: BigUint) -> Self {
        let neg = neg && !mag.is_zero();
        BigInt { neg, mag }
    }
    pub fn from_i128(v: i128) -> Self {
        BigInt::new(v < 0, BigUint::from_u128(v.unsigned_abs()))
    }
    pub fn add(&self, o: &BigInt) -> BigInt {
        if self.neg == o.neg {
            BigInt::new(self.neg, self.mag.add(&o.mag))
        } else {
            match self.mag.cmp(&o.mag) {
                Ordering::Less => BigInt::new(o.neg, o.mag.sub(&self.mag)),
                _ => BigInt::new(self.neg, self.mag.sub(&o.mag)),
            }
        }
    }
    pub fn neg(&self) -> BigInt {
        BigInt::new(!self.neg, self.mag.clone())
    }
    pub fn sub(&self, o: &BigInt) -> BigInt {
        self.add(&o.neg())
    }
    pub fn cmp(&self, o: &BigInt) -> Ordering {
        match (self.neg, o.neg) {
            (false, true) => Ordering::Greater,
            (true, false) => Ordering::Less,
            (false, false) => self.mag.cmp(&o.mag),
            (true, true) => o.mag.cmp(&self.mag),
        }
    }
    pub fn abs(&self) -> BigUint {
        self.mag.clone()
    }
}

pub fn self_check() -> Result<(), String> {
    let a = BigUint::from_decimal(b"340282366920938463463374607431768211456"); // 2^128
    let mut b = BigUint::from_u128(1);
    b.shl(128);
    if a != b {
        return Err("bigint: 2^128 mismatch".into());
    }
    if a.to_decimal() != "340282366920938463463374607431768211456" {
        return Err("bigint: to_decimal".into());
    }
    let mut c = BigUint::from_u128(1);
    c.mul_pow10(30);
    let mut d = BigUint::from_u128(1);
    d.mul_pow5(30);
    d.shl(30);
    if c != d {
        return Err("bigint: 10^30 != 5^30*2^30".into());
    }
    let x = BigInt::from_i128(-5).add(&BigInt::from_i128(3));
    if x != BigInt::from_i128(-2) {
        return Err("bigint: signed add".into());
    }
    let y = a.sub(&BigUint::from_u128(1)).to_u128();
    if y != Some(u128::MAX) {
        return Err("bigint: sub/to_u128".into());
    }
    Ok(())
}
