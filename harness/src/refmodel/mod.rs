//! Independent reference oracles, written from the standards and the property statements.
pub mod mnemonic;
pub mod resolver;
pub mod lex488;
pub mod bigint;
pub mod decnum;
pub mod respdec;
pub mod lists;
