//! Reference parsers for SCPI-99 8.3.2 channel lists and 8.3.3 numeric lists.
//!
//! Result: the entries up to the first fault, and how the list continues there:
//! `End` (clean end), `Fault` (one of the faults the property lists: iteration must report an
//! error exactly here), `Unspec` (the text leaves the pinned grammar here: no verdict from here on).

pub type R = (usize, usize);

#[derive(Clone, Debug, PartialEq)]
pub enum Tail {
    End,
    Fault(&'static str),
    /// a fault directly adjacent to a complete entry (`1:2:3`, `1a`, `'x'a`): an implementation with
    /// one character of look-ahead may or may not yield that entry before reporting the error.
    /// The entry in question is the *last* element of the returned entry list.
    FaultAfterOptionalLast(&'static str),
    /// like Unspec, and the last returned entry is adjacent to the unspecified point (optional)
    UnspecAfterOptionalLast(&'static str),
    Unspec(&'static str),
}

#[derive(Clone, Debug, PartialEq)]
pub enum NEntry {
    Value(R),
    Range(R, R),
}

#[derive(Clone, Debug, PartialEq)]
pub enum CEntry {
    Spec(Vec<i128>),
    Range(Vec<i128>, Vec<i128>),
    Path(Vec<u8>),
}

/// NRf at `i`: returns end offset, or None if no well-formed number starts here.
fn nrf(s: &[u8], mut i: usize) -> Option<usize> {
    if i < s.len() && (s[i] == b'+' || s[i] == b'-') {
        i += 1;
    }
    let d0 = i;
    while i < s.len() && s[i].is_ascii_digit() {
        i += 1;
    }
    let lead = i - d0;
    let mut frac = 0;
    if i < s.len() && s[i] == b'.' {
        i += 1;
        let f0 = i;
        while i < s.len() && s[i].is_ascii_digit() {
            i += 1;
        }
        frac = i - f0;
    }
    if lead + frac == 0 {
        return None;
    }
    if i < s.len() && (s[i] == b'E' || s[i] == b'e') {
        let mut j = i + 1;
        if j < s.len() && (s[j] == b'+' || s[j] == b'-') {
            j += 1;
        }
        let e0 = j;
        while j < s.len() && s[j].is_ascii_digit() {
            j += 1;
        }
        if j == e0 {
            return None; // `1E` : neither a number nor a listed fault
        }
        i = j;
    }
    Some(i)
}

fn starts_number(c: u8) -> bool {
    c.is_ascii_digit() || c == b'+' || c == b'-' || c == b'.'
}

pub fn numeric_list(s: &[u8]) -> (Vec<NEntry>, Tail) {
    let mut out = vec![];
    let mut i = 0;
    if s.is_empty() {
        return (out, Tail::Unspec("empty list"));
    }
    loop {
        // expect an entry
        match s.get(i) {
            None => return (out, Tail::Unspec("trailing comma")),
            Some(b',') => {
                let why = if out.is_empty() { "leading comma" } else { "doubled comma" };
                return (out, Tail::Fault(why));
            }
            Some(c) if c.is_ascii_whitespace() => return (out, Tail::Unspec("white space")),
            Some(c) if !starts_number(*c) => return (out, Tail::Fault("foreign character")),
            _ => {}
        }
        let a0 = i;
        let a1 = match nrf(s, i) {
            Some(e) => e,
            None => return (out, Tail::Unspec("malformed number")),
        };
        i = a1;
        let mut entry = NEntry::Value((a0, a1));
        if s.get(i) == Some(&b':') {
            i += 1;
            match s.get(i) {
                Some(c) if starts_number(*c) => {}
                Some(c) if c.is_ascii_whitespace() => return (out, Tail::Unspec("white space")),
                // `1:` followed by another list-syntax character or the end is malformed but not one of
                // the listed faults; only a foreign character is
                None | Some(b':') | Some(b',') | Some(b'E') | Some(b'e') => return (out, Tail::Unspec("range without end")),
                _ => return (out, Tail::Fault("foreign character")),
            }
            let b0 = i;
            let b1 = match nrf(s, i) {
                Some(e) => e,
                None => return (out, Tail::Unspec("malformed number")),
            };
            i = b1;
            entry = NEntry::Range((a0, a1), (b0, b1));
            if s.get(i) == Some(&b':') {
                // third range end: the fault lies inside this entry
                out.push(entry);
                return (out, Tail::FaultAfterOptionalLast("third range end"));
            }
        }
        // after an entry: `,` or end
        match s.get(i) {
            None => {
                out.push(entry);
                return (out, Tail::End);
            }
            Some(b',') => {
                out.push(entry);
                i += 1;
            }
            Some(c) if c.is_ascii_whitespace() => {
                out.push(entry);
                return (out, Tail::UnspecAfterOptionalLast("white space"));
            }
            Some(b'E') | Some(b'e') => {
                // `1E` / `1Ea`: exponent marker without digits
                return (out, Tail::Unspec("malformed number"));
            }
            Some(_) => {
                // missing separator (another number starts) or a foreign character right after the
                // entry: an error is due here; the adjacent entry may or may not have been yielded
                out.push(entry);
                return (out, Tail::FaultAfterOptionalLast("missing separator or foreign character after an entry"));
            }
        }
    }
}

fn int_at(s: &[u8], mut i: usize) -> Option<(i128, usize)> {
    let neg = s.get(i) == Some(&b'-');
    if matches!(s.get(i), Some(b'+') | Some(b'-')) {
        i += 1;
    }
    let d0 = i;
    let mut v: i128 = 0;
    while i < s.len() && s[i].is_ascii_digit() {
        v = v.checked_mul(10)?.checked_add((s[i] - b'0') as i128)?;
        if v > i64::MAX as i128 + neg as i128 {
            return None;
        }
        i += 1;
    }
    if i == d0 {
        return None;
    }
    Some((if neg { -v } else { v }, i))
}

/// spec = int {'!' int}
fn spec_at(s: &[u8], mut i: usize) -> Result<(Vec<i128>, usize), Tail> {
    let mut dims = vec![];
    loop {
        match s.get(i) {
            Some(c) if c.is_ascii_digit() || *c == b'+' || *c == b'-' => {}
            Some(c) if c.is_ascii_whitespace() => return Err(Tail::Unspec("white space")),
            Some(b'.') | Some(b'E') | Some(b'e') => return Err(Tail::Unspec("non-integer channel number")),
            // a list-syntax character (or the end) where a number is expected is malformed but not one
            // of the listed faults; only a foreign character is
            None | Some(b'!') | Some(b':') | Some(b',') | Some(b'\'') | Some(b'"') => return Err(Tail::Unspec("number expected in channel spec")),
            _ => return Err(Tail::Fault("foreign character in channel spec")),
        }
        let (v, e) = match int_at(s, i) {
            Some(x) => x,
            None => return Err(Tail::Unspec("sign without digits or number above 64 bits")),
        };
        dims.push(v);
        i = e;
        if s.get(i) == Some(&b'!') {
            i += 1;
            continue;
        }
        if matches!(s.get(i), Some(b'.') | Some(b'E') | Some(b'e')) {
            return Err(Tail::Unspec("non-integer channel number"));
        }
        if matches!(s.get(i), Some(b'+') | Some(b'-')) {
            return Err(Tail::Unspec("sign inside a channel spec"));
        }
        return Ok((dims, i));
    }
}

/// `body` is the text after `@`.
pub fn channel_list(s: &[u8]) -> (Vec<CEntry>, Tail) {
    let mut out = vec![];
    let mut i = 0;
    if s.is_empty() {
        return (out, Tail::Unspec("empty list"));
    }
    loop {
        match s.get(i) {
            None => return (out, Tail::Unspec("trailing comma")),
            Some(b',') => {
                let why = if out.is_empty() { "leading comma" } else { "doubled comma" };
                return (out, Tail::Fault(why));
            }
            Some(c) if c.is_ascii_whitespace() => return (out, Tail::Unspec("white space")),
            _ => {}
        }
        let c = s[i];
        let entry;
        if c == b'\'' || c == b'"' {
            // path name
            let mut j = i + 1;
            let mut p = vec![];
            loop {
                match s.get(j) {
                    None => return (out, Tail::Unspec("unterminated path name")),
                    Some(&x) if x == c => {
                        if s.get(j + 1) == Some(&c) {
                            p.push(c);
                            p.push(c);
                            j += 2;
                        } else {
                            j += 1;
                            break;
                        }
                    }
                    Some(&x) if !x.is_ascii() => return (out, Tail::Unspec("non-ASCII path name")),
                    Some(&x) => {
                        p.push(x);
                        j += 1;
                    }
                }
            }
            entry = CEntry::Path(p);
            i = j;
        } else if c.is_ascii_digit() || c == b'+' || c == b'-' {
            let (a, e) = match spec_at(s, i) {
                Ok(x) => x,
                Err(t) => return (out, t),
            };
            i = e;
            if s.get(i) == Some(&b':') {
                i += 1;
                let (b, e2) = match spec_at(s, i) {
                    Ok(x) => x,
                    Err(t) => return (out, t),
                };
                i = e2;
                if a.len() != b.len() {
                    return (out, Tail::Fault("range ends of different dimension"));
                }
                if s.get(i) == Some(&b':') {
                    out.push(CEntry::Range(a, b));
                    return (out, Tail::FaultAfterOptionalLast("third range end"));
                }
                entry = CEntry::Range(a, b);
            } else {
                entry = CEntry::Spec(a);
            }
        } else if c == b'.' {
            return (out, Tail::Unspec("non-integer channel number"));
        } else {
            return (out, Tail::Fault("foreign character"));
        }
        match s.get(i) {
            None => {
                out.push(entry);
                return (out, Tail::End);
            }
            Some(b',') => {
                out.push(entry);
                i += 1;
            }
            Some(x) if x.is_ascii_whitespace() => {
                out.push(entry);
                return (out, Tail::UnspecAfterOptionalLast("white space"));
            }
            Some(x) if x.is_ascii_digit() || matches!(x, b'+' | b'-' | b'!' | b':' | b'\'' | b'"' | b'.' | b'E' | b'e') => {
                // a character of the list syntax in the wrong place (missing separator between channel
                // entries is not among the listed faults)
                out.push(entry);
                return (out, Tail::UnspecAfterOptionalLast("misplaced list-syntax character"));
            }
            Some(_) => {
                out.push(entry);
                return (out, Tail::FaultAfterOptionalLast("foreign character after an entry"));
            }
        }
    }
}

pub fn self_check() -> Result<(), String> {
    use NEntry::*;
    let n = |s: &str| numeric_list(s.as_bytes());
    let c = |s: &str| channel_list(s.as_bytes());
    let ok = n("3.1415,1.1:3.9e6") == (vec![Value((0, 6)), Range((7, 10), (11, 16))], Tail::End)
        && n(",1,2:5").1 == Tail::Fault("leading comma")
        && n("1,,2:5") == (vec![Value((0, 1))], Tail::Fault("doubled comma"))
        && n("1-2") == (vec![Value((0, 1))], Tail::FaultAfterOptionalLast("missing separator or foreign character after an entry"))
        && n(".5,-.5e-1") == (vec![Value((0, 2)), Value((3, 9))], Tail::End)
        && n("1:2:3") == (vec![Range((0, 1), (2, 3))], Tail::FaultAfterOptionalLast("third range end"))
        && n("1a").1 == Tail::FaultAfterOptionalLast("missing separator or foreign character after an entry")
        && matches!(n("1 ,2").1, Tail::UnspecAfterOptionalLast(_))
        && matches!(n("1,").1, Tail::Unspec(_))
        && c("1!12,3!4:5!6,'POTATO'") == (vec![CEntry::Spec(vec![1, 12]), CEntry::Range(vec![3, 4], vec![5, 6]), CEntry::Path(b"POTATO".to_vec())], Tail::End)
        && c("1!2:3").1 == Tail::Fault("range ends of different dimension")
        && matches!(c("1!!2").1, Tail::Unspec(_))
        && matches!(c("1!1:!1-1").1, Tail::Unspec(_))
        && c("1!a").1 == Tail::Fault("foreign character in channel spec")
        && matches!(n("1::2").1, Tail::Unspec(_))
        && n("1:a").1 == Tail::Fault("foreign character")
        && c("1:2:3").1 == Tail::FaultAfterOptionalLast("third range end")
        && matches!(c("1'x'").1, Tail::UnspecAfterOptionalLast(_))
        && c("'x'a").1 == Tail::FaultAfterOptionalLast("foreign character after an entry")
        && c("1,a").1 == Tail::Fault("foreign character")
        && c("-1!+2") == (vec![CEntry::Spec(vec![-1, 2])], Tail::End)
        && matches!(c("1.5").1, Tail::Unspec(_))
        && matches!(c("1+2").1, Tail::Unspec(_));
    if ok {
        Ok(())
    } else {
        Err("lists reference self-check failed".into())
    }
}
