//! Exact decimal arithmetic oracle for numeric parameter conversions (C07, C08, C17).

use super::bigint::{BigInt, BigUint};
use std::cmp::Ordering;

/// A decimal literal `[+-] D x 10^exp10`, exact.
#[derive(Clone, Debug)]
pub struct Dec {
    pub neg: bool,
    pub digits: BigUint,
    pub exp10: i64,
    /// spelled as plain NR1 (optional sign + digits only)
    pub nr1: bool,
    /// number of significant decimal digits of `digits` (0 for zero)
    pub ndigits: i64,
}

/// Parse an NRf literal per IEEE 488.2 7.7.2.2 (no embedded white space). None if malformed.
pub fn parse_nrf(lit: &[u8]) -> Option<Dec> {
    let mut i = 0;
    let mut neg = false;
    if i < lit.len() && (lit[i] == b'+' || lit[i] == b'-') {
        neg = lit[i] == b'-';
        i += 1;
    }
    let st = i;
    while i < lit.len() && lit[i].is_ascii_digit() {
        i += 1;
    }
    let int_part = &lit[st..i];
    let mut frac_part: &[u8] = &[];
    let mut nr1 = true;
    if i < lit.len() && lit[i] == b'.' {
        nr1 = false;
        i += 1;
        let fs = i;
        while i < lit.len() && lit[i].is_ascii_digit() {
            i += 1;
        }
        frac_part = &lit[fs..i];
    }
    if int_part.is_empty() && frac_part.is_empty() {
        return None;
    }
    let mut exp: i64 = 0;
    if i < lit.len() && (lit[i] == b'E' || lit[i] == b'e') {
        nr1 = false;
        i += 1;
        let mut eneg = false;
        if i < lit.len() && (lit[i] == b'+' || lit[i] == b'-') {
            eneg = lit[i] == b'-';
            i += 1;
        }
        let es = i;
        while i < lit.len() && lit[i].is_ascii_digit() {
            i += 1;
        }
        if es == i {
            return None;
        }
        let mut e: i64 = 0;
        for &c in &lit[es..i] {
            e = (e * 10 + (c - b'0') as i64).min(1_000_000);
        }
        exp = if eneg { -e } else { e };
    }
    if i != lit.len() {
        return None;
    }
    let mut all = int_part.to_vec();
    all.extend_from_slice(frac_part);
    let digits = BigUint::from_decimal(&all);
    let sig = all.iter().skip_while(|c| **c == b'0').count() as i64;
    Some(Dec {
        neg,
        digits,
        exp10: exp - frac_part.len() as i64,
        nr1,
        ndigits: sig,
    })
}

/// num / (10^p10 * 2^p2)
#[derive(Clone, Debug)]
pub struct Rat {
    pub num: BigInt,
    pub p10: u32,
    pub p2: u32,
}

impl Rat {
    pub fn int(v: i128) -> Rat {
        Rat {
            num: BigInt::from_i128(v),
            p10: 0,
            p2: 0,
        }
    }
    pub fn pow2(e: i32) -> Rat {
        if e >= 0 {
            let mut m = BigUint::from_u128(1);
            m.shl(e as u32);
            Rat {
                num: BigInt::new(false, m),
                p10: 0,
                p2: 0,
            }
        } else {
            Rat {
                num: BigInt::from_i128(1),
                p10: 0,
                p2: (-e) as u32,
            }
        }
    }
    /// exact value of a moderately sized decimal (|exp10| bounded by caller)
    pub fn of_dec(d: &Dec) -> Rat {
        let mut m = d.digits.clone();
        if d.exp10 >= 0 {
            m.mul_pow10(d.exp10 as u32);
            Rat {
                num: BigInt::new(d.neg, m),
                p10: 0,
                p2: 0,
            }
        } else {
            Rat {
                num: BigInt::new(d.neg, m),
                p10: (-d.exp10) as u32,
                p2: 0,
            }
        }
    }
    fn scaled_to(&self, p10: u32, p2: u32) -> BigInt {
        let mut m = self.num.mag.clone();
        m.mul_pow10(p10 - self.p10);
        m.shl(p2 - self.p2);
        BigInt::new(self.num.neg, m)
    }
    pub fn add(&self, o: &Rat) -> Rat {
        let p10 = self.p10.max(o.p10);
        let p2 = self.p2.max(o.p2);
        Rat {
            num: self.scaled_to(p10, p2).add(&o.scaled_to(p10, p2)),
            p10,
            p2,
        }
    }
    pub fn sub(&self, o: &Rat) -> Rat {
        let mut n = o.clone();
        n.num = n.num.neg();
        self.add(&n)
    }
    pub fn cmp(&self, o: &Rat) -> Ordering {
        let p10 = self.p10.max(o.p10);
        let p2 = self.p2.max(o.p2);
        self.scaled_to(p10, p2).cmp(&o.scaled_to(p10, p2))
    }
    pub fn abs(&self) -> Rat {
        let mut r = self.clone();
        r.num.neg = false;
        r
    }
    pub fn is_zero(&self) -> bool {
        self.num.mag.is_zero()
    }
}

#[derive(Clone, Copy, Debug, PartialEq)]
pub enum Magnitude {
    /// |x| >= 10^40: beyond every integer type and every tolerance
    Huge,
    /// 0 < |x| < 10^-30
    Tiny,
    Zero,
    Moderate,
}

pub fn magnitude(d: &Dec) -> Magnitude {
    if d.digits.is_zero() {
        return Magnitude::Zero;
    }
    let top = d.ndigits + d.exp10; // x in [10^(top-1), 10^top)
    if top > 40 {
        Magnitude::Huge
    } else if top < -30 {
        Magnitude::Tiny
    } else {
        Magnitude::Moderate
    }
}

/// Which float type the conversion may go through (the property's stated resolution).
#[derive(Clone, Copy, Debug, PartialEq)]
pub enum Via {
    F32,
    F64,
}

/// Exact rational value of a finite double.
pub fn rat_of_f64(f: f64) -> Rat {
    let bits = f.to_bits();
    let neg = bits >> 63 == 1;
    let e = ((bits >> 52) & 0x7ff) as i32;
    let frac = bits & ((1u64 << 52) - 1);
    let (m, x) = if e == 0 { (frac, -1074) } else { (frac | (1u64 << 52), e - 1075) };
    let mut r = Rat::pow2(x);
    let mut mag = BigUint::from_u128(m as u128);
    if x >= 0 {
        mag.shl(x as u32);
        r = Rat { num: BigInt::new(neg, mag), p10: 0, p2: 0 };
    } else {
        r.num = BigInt::new(neg, mag);
    }
    r
}

fn next_up64(f: f64) -> f64 {
    if f == 0.0 {
        return f64::from_bits(1);
    }
    let b = f.to_bits();
    f64::from_bits(if f > 0.0 { b + 1 } else { b - 1 })
}
fn next_down64(f: f64) -> f64 {
    -next_up64(-f)
}
fn next_up32(f: f32) -> f32 {
    if f == 0.0 {
        return f32::from_bits(1);
    }
    let b = f.to_bits();
    f32::from_bits(if f > 0.0 { b + 1 } else { b - 1 })
}
fn next_down32(f: f32) -> f32 {
    -next_up32(-f)
}

/// Tolerance `delta`: "exact up to the resolution of the intermediate float type" = the literal
/// may be replaced by either of the two adjacent floats that bracket it (nothing if it is itself
/// representable). Returns max(x - lo, hi - x).
fn bracket_delta(lit: &str, via: Via, x: &Rat) -> Rat {
    let (lo, hi): (f64, f64) = match via {
        Via::F64 => {
            let f: f64 = lit.parse::<f64>().unwrap_or(0.0);
            if !f.is_finite() {
                return Rat::int(0);
            }
            match rat_of_f64(f).cmp(x) {
                Ordering::Equal => return Rat::int(0),
                Ordering::Less => (f, next_up64(f)),
                Ordering::Greater => (next_down64(f), f),
            }
        }
        Via::F32 => {
            let f: f32 = lit.parse::<f32>().unwrap_or(0.0);
            if !f.is_finite() {
                return Rat::int(0);
            }
            match rat_of_f64(f as f64).cmp(x) {
                Ordering::Equal => return Rat::int(0),
                Ordering::Less => (f as f64, next_up32(f) as f64),
                Ordering::Greater => (next_down32(f) as f64, f as f64),
            }
        }
    };
    if !lo.is_finite() || !hi.is_finite() {
        return Rat::int(0);
    }
    let a = x.sub(&rat_of_f64(lo));
    let b = rat_of_f64(hi).sub(x);
    if a.cmp(&b) == Ordering::Greater {
        a
    } else {
        b
    }
}

/// What an integer conversion of `lit` into [min, max] may return.
#[derive(Clone, Debug)]
pub struct IntOracle {
    x: Option<Rat>,
    /// 1/2 + delta
    h: Rat,
    mag: Magnitude,
    neg: bool,
    min: i128,
    max: i128,
}

impl IntOracle {
    pub fn new(lit: &[u8], min: i128, max: i128, via: Via) -> Option<IntOracle> {
        let d = parse_nrf(lit)?;
        let mag = magnitude(&d);
        let s = std::str::from_utf8(lit).ok()?;
        let (x, h) = match mag {
            Magnitude::Moderate | Magnitude::Zero => {
                // zero with any exponent is zero (no 10^|exp| arithmetic for `0E-900000`)
                let x = if mag == Magnitude::Zero { Rat::int(0) } else { Rat::of_dec(&d) };
                let h = if d.nr1 {
                    Rat::int(0)
                } else {
                    Rat::pow2(-1).add(&bracket_delta(s.trim_start_matches('+'), via, &x))
                };
                (Some(x), h)
            }
            _ => (None, Rat::int(0)),
        };
        Some(IntOracle {
            x,
            h,
            mag,
            neg: d.neg,
            min,
            max,
        })
    }

    /// Is `Ok(r)` an acceptable result?
    pub fn ok_acceptable(&self, r: i128) -> bool {
        if r < self.min || r > self.max {
            return false;
        }
        match self.mag {
            Magnitude::Huge => false,
            Magnitude::Tiny => r == 0,
            _ => {
                let x = self.x.as_ref().unwrap();
                let diff = Rat::int(r).sub(x).abs();
                diff.cmp(&self.h) != Ordering::Greater
            }
        }
    }

    /// Is `-222 Data out of range` an acceptable result?
    pub fn range_error_acceptable(&self) -> bool {
        match self.mag {
            Magnitude::Huge => true,
            Magnitude::Tiny => false,
            _ => {
                let x = self.x.as_ref().unwrap();
                // some acceptable integer lies outside [min, max]  <=>  not (x-h > min-1 and x+h < max+1)
                let lo_ok = x.sub(&self.h).cmp(&Rat::int(self.min - 1)) == Ordering::Greater;
                let hi_ok = x.add(&self.h).cmp(&Rat::int(self.max + 1)) == Ordering::Less;
                !(lo_ok && hi_ok)
            }
        }
    }

    /// Rounds-to-nonzero / rounds-to-zero admissibility for booleans.
    pub fn bool_acceptable(&self, b: bool) -> bool {
        match self.mag {
            Magnitude::Huge => b,
            Magnitude::Tiny | Magnitude::Zero => !b,
            Magnitude::Moderate => {
                let x = self.x.as_ref().unwrap();
                let zero_ok = x.abs().cmp(&self.h.add(&Rat::int(0))) != Ordering::Greater && {
                    // 0 is a nearest integer of some y within tolerance: |x| <= 1/2 + u
                    true
                };
                // some non-zero integer acceptable: |x| + h >= 1  (nearest non-zero integer is +-1 or beyond)
                let nonzero_ok = x.abs().add(&self.h).cmp(&Rat::int(1)) != Ordering::Less;
                if b {
                    nonzero_ok
                } else {
                    zero_ok
                }
            }
        }
    }
    pub fn is_negative_literal(&self) -> bool {
        self.neg
    }
}

// ---------------------------------------------------------------------------------------
// Halfway cases for floats, constructed exactly

/// Exact decimal expansion of `m * 2^e` (m > 0) as a plain decimal string (no exponent).
pub fn exact_decimal(m: u128, e: i32) -> String {
    let mut n = BigUint::from_u128(m);
    if e >= 0 {
        n.shl(e as u32);
        n.to_decimal()
    } else {
        let k = (-e) as u32;
        n.mul_pow5(k);
        let s = n.to_decimal();
        // value = s / 10^k
        let k = k as usize;
        if s.len() > k {
            format!("{}.{}", &s[..s.len() - k], &s[s.len() - k..])
        } else {
            format!("0.{}{}", "0".repeat(k - s.len()), s)
        }
    }
}

/// Add +1 / -1 to the last digit of a plain decimal string (treating it as an integer of digits).
pub fn nudge_last_digit(s: &str, up: bool) -> String {
    let mut b: Vec<u8> = s.bytes().collect();
    let mut i = b.len();
    loop {
        if i == 0 {
            if up {
                b.insert(0, b'1');
            }
            break;
        }
        i -= 1;
        if b[i] == b'.' {
            continue;
        }
        if up {
            if b[i] == b'9' {
                b[i] = b'0';
            } else {
                b[i] += 1;
                break;
            }
        } else if b[i] == b'0' {
            b[i] = b'9';
        } else {
            b[i] -= 1;
            break;
        }
    }
    String::from_utf8(b).unwrap()
}

pub fn self_check() -> Result<(), String> {
    super::bigint::self_check()?;
    let t: &[(&str, i128, i128, Via, Option<i128>, bool)] = &[
        // literal, min, max, via, an acceptable Ok value, is -222 acceptable
        ("0.4", 0, 255, Via::F32, Some(0), false),
        ("0.6", 0, 255, Via::F32, Some(1), false),
        ("255.4", 0, 255, Via::F32, Some(255), false),
        ("255.6", 0, 255, Via::F32, None, true),
        ("256", 0, 255, Via::F32, None, true),
        ("-0.4", 0, 255, Via::F32, Some(0), false),
        ("-0.6", 0, 255, Via::F32, None, true),
        ("0.0", -128, 127, Via::F32, Some(0), false),
        ("9223372036854775807", i64::MIN as i128, i64::MAX as i128, Via::F64, Some(i64::MAX as i128), false),
        ("9223372036854775808", i64::MIN as i128, i64::MAX as i128, Via::F64, None, true),
        ("1e400", 0, u64::MAX as i128, Via::F64, None, true),
        ("1e-400", 0, 255, Via::F32, Some(0), false),
        ("2.5", 0, 255, Via::F32, Some(2), false),
        ("2.5", 0, 255, Via::F32, Some(3), false),
    ];
    for (lit, min, max, via, ok, range) in t {
        let o = IntOracle::new(lit.as_bytes(), *min, *max, *via).ok_or("decnum: parse")?;
        if let Some(v) = ok {
            if !o.ok_acceptable(*v) {
                return Err(format!("decnum self-check: {lit} -> {v} should be acceptable"));
            }
        }
        if o.range_error_acceptable() != *range {
            return Err(format!("decnum self-check: {lit}: range error acceptable = {}, expected {range}", o.range_error_acceptable()));
        }
    }
    let o = IntOracle::new(b"0.4", 0, 255, Via::F32).unwrap();
    if o.ok_acceptable(1) || IntOracle::new(b"255.6", 0, 255, Via::F32).unwrap().ok_acceptable(255) {
        return Err("decnum self-check: wrong values accepted".into());
    }
    if IntOracle::new(b"127", -128, 127, Via::F32).unwrap().ok_acceptable(126) {
        return Err("decnum self-check: NR1 must be exact".into());
    }
    if exact_decimal(3, -2) != "0.75" || exact_decimal(5, 1) != "10" || nudge_last_digit("0.75", true) != "0.76" || nudge_last_digit("1.00", false) != "0.99" {
        return Err("decnum self-check: exact_decimal".into());
    }
    Ok(())
}
