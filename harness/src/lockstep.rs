//! Explicit-state exploration of the *real implementation* in lock-step with a reference model.
//!
//! `Lockstep` describes one product system: a concrete implementation state `Sys` (a clone-able
//! device value on which the real library code is executed), a reference state `Ref`, a finite
//! action alphabet and a `step` that applies one action to both and compares every observation.
//! `explore` runs stateright's BFS over the product to a fixpoint; every transition is one real
//! execution of library code, compared against the model (so every explored edge is a validated
//! trace step). A mismatch that is listed in known_findings.txt is counted, the reference is
//! re-synchronised from the implementation state and exploration continues; any other mismatch
//! poisons the state, which stateright reports as the (near-)shortest counterexample path.

use crate::core::{Ctx, Samples};
use serde_json::{json, Value};
use stateright::{Checker, Model, Property};
use std::fmt::Debug;
use std::hash::Hash;
use std::sync::atomic::{AtomicU64, Ordering};
use std::sync::Mutex;

#[derive(Clone, Debug, PartialEq, Eq, Hash)]
pub struct Mismatch {
    /// classification key (matched against known_findings.txt)
    pub key: String,
    pub what: String,
}

pub trait Lockstep: Send + Sync + 'static {
    type Sys: Clone + Debug + Hash + PartialEq + Send + Sync + 'static;
    type Ref: Clone + Debug + Hash + PartialEq + Send + Sync + 'static;
    fn name(&self) -> String;
    fn init(&self) -> (Self::Sys, Self::Ref);
    fn n_actions(&self) -> usize;
    fn render(&self, a: usize) -> String;
    /// Is action `a` explored from this state (state constraint, e.g. queue length bound)?
    fn enabled(&self, _sys: &Self::Sys, _r: &Self::Ref, _a: usize) -> bool {
        true
    }
    /// Apply action to implementation (real code) and model, compare all observations.
    fn step(&self, sys: &mut Self::Sys, r: &mut Self::Ref, a: usize) -> Result<(), Mismatch>;
    /// Abstraction function: the reference state that corresponds to an implementation state.
    fn resync(&self, sys: &Self::Sys) -> Self::Ref;
    /// Is this transition "non-trivial" for the property (counted in evidence)?
    fn nontrivial(&self, _before: &Self::Sys, _after: &Self::Sys, _a: usize) -> bool {
        true
    }
}

#[derive(Clone, Debug, PartialEq, Hash)]
pub struct PState<S, R> {
    pub sys: S,
    pub rf: R,
    pub bad: Option<Mismatch>,
}

pub struct Product<L: Lockstep> {
    pub l: L,
    pub ctx: &'static Ctx,
    pub transitions: AtomicU64,
    pub nontrivial: AtomicU64,
    pub known_resyncs: AtomicU64,
    pub outcomes: Mutex<std::collections::HashSet<u64>>,
}

impl<L: Lockstep> Model for Product<L> {
    type State = PState<L::Sys, L::Ref>;
    type Action = usize;

    fn init_states(&self) -> Vec<Self::State> {
        let (sys, rf) = self.l.init();
        vec![PState { sys, rf, bad: None }]
    }

    fn actions(&self, s: &Self::State, actions: &mut Vec<usize>) {
        if s.bad.is_some() {
            return;
        }
        for a in 0..self.l.n_actions() {
            if self.l.enabled(&s.sys, &s.rf, a) {
                actions.push(a);
            }
        }
    }

    fn next_state(&self, s: &Self::State, a: usize) -> Option<Self::State> {
        let mut sys = s.sys.clone();
        let mut rf = s.rf.clone();
        self.transitions.fetch_add(1, Ordering::Relaxed);
        let r = crate::core::guarded(|| self.l.step(&mut sys, &mut rf, a));
        let r = match r {
            Ok(r) => r,
            Err(p) => Err(Mismatch {
                key: "panic".into(),
                what: format!("panic in implementation during `{}`: {p}", self.l.render(a)),
            }),
        };
        if self.l.nontrivial(&s.sys, &sys, a) {
            self.nontrivial.fetch_add(1, Ordering::Relaxed);
        }
        match r {
            Ok(()) => Some(PState { sys, rf, bad: None }),
            Err(m) => {
                if self.ctx.is_known(&m.key) {
                    // listed finding: count it, re-synchronise, continue exploring
                    self.ctx.violation(0, &m.key, &m.what, Value::Null);
                    self.known_resyncs.fetch_add(1, Ordering::Relaxed);
                    let rf = self.l.resync(&sys);
                    Some(PState { sys, rf, bad: None })
                } else {
                    Some(PState {
                        sys,
                        rf,
                        bad: Some(m),
                    })
                }
            }
        }
    }

    fn properties(&self) -> Vec<Property<Self>> {
        vec![Property::always("implementation conforms to reference model", |_: &Self, s: &PState<L::Sys, L::Ref>| {
            s.bad.is_none()
        })]
    }
}

#[derive(Default, Debug, Clone)]
pub struct ExploreStats {
    pub states: u64,
    pub transitions: u64,
    pub nontrivial: u64,
    pub max_depth: u64,
    pub known_resyncs: u64,
    pub violations: u64,
}

impl ExploreStats {
    pub fn add(&mut self, o: &ExploreStats) {
        self.states += o.states;
        self.transitions += o.transitions;
        self.nontrivial += o.nontrivial;
        self.max_depth = self.max_depth.max(o.max_depth);
        self.known_resyncs += o.known_resyncs;
        self.violations += o.violations;
    }
}

/// Explore the product to its fixpoint. Reports a discovery as a violation with a replay file
/// holding the action path. `cfg` identifies the configuration so that replay can rebuild `l`.
pub fn explore<L: Lockstep>(ctx: &'static Ctx, l: L, cfg: Value, samples: &mut Samples) -> ExploreStats {
    let name = l.name();
    let n_actions = l.n_actions();
    let model = Product {
        l,
        ctx,
        transitions: AtomicU64::new(0),
        nontrivial: AtomicU64::new(0),
        known_resyncs: AtomicU64::new(0),
        outcomes: Mutex::new(Default::default()),
    };
    let checker = model.checker().threads(ctx.threads).spawn_bfs().join();
    let mut st = ExploreStats {
        states: checker.unique_state_count() as u64,
        transitions: checker.model().transitions.load(Ordering::Relaxed),
        nontrivial: checker.model().nontrivial.load(Ordering::Relaxed),
        max_depth: checker.max_depth() as u64,
        known_resyncs: checker.model().known_resyncs.load(Ordering::Relaxed),
        violations: 0,
    };
    let disc = checker.discoveries();
    for (_pname, path) in disc {
        let last = path.last_state().clone();
        let actions: Vec<usize> = path.into_actions();
        let rendered: Vec<String> = actions.iter().map(|a| checker.model().l.render(*a)).collect();
        let m = last.bad.clone().unwrap_or(Mismatch {
            key: "unknown".into(),
            what: "discovery without mismatch".into(),
        });
        st.violations += 1;
        ctx.violation(
            actions.len() as u64,
            &m.key,
            &format!("[{}] after {:?}: {}", name, rendered, m.what),
            json!({"kind": "lockstep", "model": name, "config": cfg, "actions": actions, "rendered": rendered}),
        );
    }
    // a sample trace: replay a short deterministic walk so the evidence shows what steps look like
    {
        let l = &checker.model().l;
        let (mut sys, mut rf) = l.init();
        let mut tr = vec![];
        let mut a = 0usize;
        for i in 0..6 {
            a = (a * 7 + 3 + i) % n_actions.max(1);
            if n_actions == 0 || !l.enabled(&sys, &rf, a) {
                continue;
            }
            let ok = l.step(&mut sys, &mut rf, a).is_ok();
            tr.push(json!({"action": l.render(a), "conforms": ok}));
            if !ok {
                break;
            }
        }
        samples.push(json!({"model": name, "trace": tr, "final_impl_state": format!("{:?}", sys)}));
    }
    st
}

/// Replay an action path without the explorer. Returns Err(mismatch) if it still fails.
pub fn replay<L: Lockstep>(l: &L, actions: &[usize]) -> Result<String, Mismatch> {
    let (mut sys, mut rf) = l.init();
    for &a in actions {
        if a >= l.n_actions() {
            crate::core::engine_failure("replay action index out of range for this configuration");
        }
        let r = crate::core::guarded(|| l.step(&mut sys, &mut rf, a));
        match r {
            Ok(Ok(())) => {}
            Ok(Err(m)) => return Err(m),
            Err(p) => {
                return Err(Mismatch {
                    key: "panic".into(),
                    what: format!("panic during `{}`: {p}", l.render(a)),
                })
            }
        }
    }
    Ok(format!("{:?}", sys))
}
