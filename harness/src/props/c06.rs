//! C06 – a handler sees exactly its own unit's parameters; wrong arity is an error.
//! Exhaustive enumeration of (data tuple, pull pattern, unit position, follower) combinations.

use crate::core::*;
use crate::rig::*;
use scpi::tree::prelude::*;
use serde_json::{json, Value};

/// Data element representatives: (text, kind tag, payload range inside the text, nondecimal value)
#[derive(Clone, Copy, Debug)]
pub struct Elem {
    pub text: &'static str,
    pub kind: u8, // 0 chr 1 num 2 numsuffix 3 nondec 4 str 5 block 6 expr
    pub a: (usize, usize),
    pub b: (usize, usize),
    pub val: u64,
}

pub const ELEMS: &[Elem] = &[
    Elem { text: "ABC", kind: 0, a: (0, 3), b: (0, 0), val: 0 },
    Elem { text: "-1.5E3", kind: 1, a: (0, 6), b: (0, 0), val: 0 },
    Elem { text: "2 MV", kind: 2, a: (0, 1), b: (2, 4), val: 0 },
    Elem { text: "#HFF", kind: 3, a: (0, 0), b: (0, 0), val: 255 },
    Elem { text: "\"a;b\"", kind: 4, a: (1, 4), b: (0, 0), val: 0 },
    Elem { text: "'c,d'", kind: 4, a: (1, 4), b: (0, 0), val: 0 },
    Elem { text: "#13;,;", kind: 5, a: (3, 6), b: (0, 0), val: 0 },
    Elem { text: "(1,2)", kind: 6, a: (1, 4), b: (0, 0), val: 0 },
    Elem { text: "\"q\"\"q\"", kind: 4, a: (1, 5), b: (0, 0), val: 0 },
    Elem { text: "42", kind: 1, a: (0, 2), b: (0, 0), val: 0 },
    Elem { text: "#10", kind: 5, a: (3, 3), b: (0, 0), val: 0 },
];

const H_OBS: u8 = 0;
const H_NB: u8 = 1;

fn tree() -> TreeSpec {
    TreeSpec::root(vec![
        TreeSpec::leaf("OBS", H_OBS),
        TreeSpec::leaf("NB", H_NB),
        TreeSpec::branch("BR", vec![TreeSpec::dleaf("OBS", H_OBS), TreeSpec::leaf("NB", H_NB)]),
    ])
}

fn expected_tok(e: &Elem, base: usize) -> TokRec {
    match e.kind {
        0 => TokRec::Chr(base + e.a.0, base + e.a.1),
        1 => TokRec::Num(base + e.a.0, base + e.a.1),
        2 => TokRec::NumSuffix(base + e.a.0, base + e.a.1, base + e.b.0, base + e.b.1),
        3 => TokRec::NonDec(e.val),
        4 => TokRec::Str(base + e.a.0, base + e.a.1),
        5 => TokRec::Block(base + e.a.0, base + e.a.1),
        _ => TokRec::Expr(base + e.a.0, base + e.a.1),
    }
}

#[derive(Clone, Debug)]
pub struct Case {
    pub elems: Vec<usize>,
    pub req: u8,
    pub opt: u8,
    /// 0 first, 1 middle, 2 last
    pub pos: u8,
    /// follower after the message: 0 nothing, 1 NL, 2 blank, 3 `;` (trailing)
    pub tail: u8,
    pub query: bool,
    /// data separator spelling: 0 `,`, 1 ` , `
    pub sepstyle: u8,
    pub nested: bool,
    /// the observed unit's header is written absolute (`:OBS` / `:BR:OBS`)
    pub colon: bool,
    /// nested only: the default leaf's own mnemonic is omitted, the unit's header ends on the branch
    /// (`BR 1,2` / `:BR? 1`); written absolute unless it is the first unit
    pub omit: bool,
}

impl Case {
    pub fn to_json(&self) -> Value {
        json!({"kind": "c06", "elems": self.elems, "req": self.req, "opt": self.opt, "pos": self.pos, "tail": self.tail, "query": self.query, "sepstyle": self.sepstyle, "nested": self.nested, "colon": self.colon, "omit": self.omit})
    }
    pub fn from_json(v: &Value) -> Option<Case> {
        Some(Case {
            elems: v["elems"].as_array()?.iter().map(|x| x.as_u64().unwrap() as usize).collect(),
            req: v["req"].as_u64()? as u8,
            opt: v["opt"].as_u64()? as u8,
            pos: v["pos"].as_u64()? as u8,
            tail: v["tail"].as_u64()? as u8,
            query: v["query"].as_bool()?,
            sepstyle: v["sepstyle"].as_u64()? as u8,
            nested: v["nested"].as_bool()?,
            colon: v["colon"].as_bool().unwrap_or(false),
            omit: v["omit"].as_bool().unwrap_or(false),
        })
    }
    /// message text and byte offset of each element of the observed unit
    pub fn build(&self) -> (Vec<u8>, Vec<usize>) {
        let mut m: Vec<u8> = vec![];
        let nb_before = "NB 77,\"n;b\"";
        let nb_after = "NB 88,'x,y',#12zz";
        if self.pos >= 1 {
            if self.nested {
                m.extend_from_slice(b"BR:");
            }
            m.extend_from_slice(nb_before.as_bytes());
            m.push(b';');
        } else if self.nested && !self.colon && !self.omit {
            m.extend_from_slice(b"BR:");
        }
        if self.nested && self.omit {
            // the header ends on the branch; the default leaf OBS is implied
            m.extend_from_slice(if self.colon || self.pos >= 1 { b":BR" } else { b"BR" });
        } else {
            if self.colon {
                m.extend_from_slice(if self.nested { b":BR:" } else { b":" });
            }
            m.extend_from_slice(b"OBS");
        }
        if self.query {
            m.push(b'?');
        }
        let mut offs = vec![];
        for (i, &e) in self.elems.iter().enumerate() {
            if i == 0 {
                m.push(b' ');
            } else if self.sepstyle == 0 {
                m.push(b',');
            } else {
                m.extend_from_slice(b" , ");
            }
            offs.push(m.len());
            m.extend_from_slice(ELEMS[e].text.as_bytes());
        }
        if self.pos <= 1 && self.pos != 2 && self.has_follower() {
            m.push(b';');
            m.extend_from_slice(nb_after.as_bytes());
        }
        match self.tail {
            1 => m.push(b'\n'),
            2 => m.push(b' '),
            3 => m.push(b';'),
            _ => {}
        }
        (m, offs)
    }
    fn has_follower(&self) -> bool {
        self.pos == 0 || self.pos == 1
    }
}

pub fn check(tree: &'static Node<'static, RigDev>, c: &Case) -> Result<(), (String, String)> {
    let (msg, offs) = c.build();
    let mut dev = RigDev::new();
    dev.plan[H_OBS as usize] = Plan {
        req: c.req,
        opt: c.opt,
        resp: &[Item::I64(1)],
        ..Plan::NOP
    };
    dev.plan[H_NB as usize] = Plan::pull(0, 4);
    let mut out = Vec::new();
    let r = guarded(|| run_vec(tree, &mut dev, &msg, &mut out)).map_err(|p| ("panic".to_string(), format!("`{}` panicked: {p}", esc(&msg))))?;
    let m = esc(&msg);
    let n = c.elems.len();
    let pulls_wanted = (c.req + c.opt) as usize;
    let obs: Vec<&PullRec> = dev.pulls.iter().filter(|p| p.handler == H_OBS).collect();
    // expected pull results
    let mut exp: Vec<Pull> = vec![];
    let mut handler_error: Option<i16> = None;
    for i in 0..c.req as usize {
        if i < n {
            exp.push(Pull::Tok(expected_tok(&ELEMS[c.elems[i]], offs[i])));
        } else {
            exp.push(Pull::Err(-109));
            handler_error = Some(-109);
            break;
        }
    }
    if handler_error.is_none() {
        for j in 0..c.opt as usize {
            let i = c.req as usize + j;
            if i < n {
                exp.push(Pull::Tok(expected_tok(&ELEMS[c.elems[i]], offs[i])));
            } else {
                exp.push(Pull::Absent);
                break;
            }
        }
    }
    let got: Vec<Pull> = obs.iter().map(|p| p.pull).collect();
    if got != exp {
        let key = if got.iter().any(|g| matches!(g, Pull::Tok(t) if !exp.contains(&Pull::Tok(*t)))) {
            "foreign-or-modified-element"
        } else {
            "pull-sequence"
        };
        return Err((key.into(), format!("`{m}`: handler pulls {}+{} and saw {:?}, expected {:?}", c.req, c.opt, got, exp)));
    }
    // message outcome
    let calls: Vec<u8> = dev.calls.iter().map(|x| x.handler).collect();
    let follower_ran = {
        let idx_obs = calls.iter().position(|h| *h == H_OBS);
        match idx_obs {
            Some(i) => calls[i + 1..].contains(&H_NB),
            None => false,
        }
    };
    let want: Result<(), i16> = if let Some(e) = handler_error {
        Err(e)
    } else if n > pulls_wanted {
        Err(-108)
    } else {
        Ok(())
    };
    let gotr = r.map_err(|e| e.get_code());
    if gotr != want {
        let key = match (want, gotr) {
            (Err(-108), Ok(())) => "leftover-accepted",
            (Err(-109), Ok(())) => "missing-accepted",
            _ => "wrong-result",
        };
        return Err((key.into(), format!("`{m}`: unit carries {n} elements, handler takes {}+{}: returned {:?}, expected {:?}", c.req, c.opt, gotr, want)));
    }
    if want.is_err() && follower_ran {
        return Err(("next-unit-started".into(), format!("`{m}`: failed with {:?} but the following unit's handler ran", want)));
    }
    if want.is_ok() && c.has_follower() && !follower_ran {
        return Err(("follower-skipped".into(), format!("`{m}`: succeeded but the following unit did not run"))); 
    }
    // the neighbours saw their own data only
    for p in dev.pulls.iter().filter(|p| p.handler == H_NB) {
        if let Pull::Tok(t) = p.pull {
            let inside = |a: usize, b: usize| offs.first().map_or(false, |&o| a >= o && b <= offs.last().unwrap() + ELEMS[*c.elems.last().unwrap()].text.len());
            let bad = match t {
                TokRec::Chr(a, b) | TokRec::Num(a, b) | TokRec::Str(a, b) | TokRec::Block(a, b) | TokRec::Expr(a, b) => inside(a, b),
                TokRec::NumSuffix(a, b, _, _) => inside(a, b),
                _ => false,
            };
            if bad {
                return Err(("neighbour-saw-foreign".into(), format!("`{m}`: neighbour unit received {:?} from the observed unit", t)));
            }
        }
    }
    Ok(())
}

/// The same case with a handler that uses the typed API (`next_data::<u8>` for required,
/// `next_optional_data::<u8>` for optional parameters). What each element converts to is taken
/// from the library's own `u8::try_from` on the element lexed in isolation (the conversion itself
/// is C07's business); this check is about which element is offered, and that an element that is
/// present is never reported as absent.
pub fn check_typed(tree: &'static Node<'static, RigDev>, c: &Case) -> Result<(), (String, String)> {
    use scpi::parser::tokenizer::Tokenizer;
    let (msg, _offs) = c.build();
    let mut dev = RigDev::new();
    dev.plan[H_OBS as usize] = Plan {
        req: c.req,
        opt: c.opt,
        typed_u8: true,
        resp: &[Item::I64(1)],
        ..Plan::NOP
    };
    dev.plan[H_NB as usize] = Plan::pull(0, 4);
    let mut out = Vec::new();
    let r = guarded(|| run_vec(tree, &mut dev, &msg, &mut out)).map_err(|p| ("panic".to_string(), format!("`{}` panicked: {p}", esc(&msg))))?;
    let m = esc(&msg);
    let n = c.elems.len();
    let conv = |i: usize| -> Result<i64, i16> {
        let text = ELEMS[c.elems[i]].text.as_bytes();
        match Tokenizer::new_params(text).next() {
            Some(Ok(t)) => u8::try_from(t).map(|v| v as i64).map_err(|e| e.get_code()),
            // the library's lexer does not even lex the element on its own: the comparison below
            // reports it (no real conversion result equals this sentinel)
            _ => Err(i16::MIN),
        }
    };
    let mut exp: Vec<Pull> = vec![];
    let mut handler_error: Option<i16> = None;
    let mut consumed = 0usize;
    for i in 0..c.req as usize {
        if i < n {
            consumed += 1;
            match conv(i) {
                Ok(v) => exp.push(Pull::Val(v)),
                Err(e) => {
                    exp.push(Pull::Err(e));
                    handler_error = Some(e);
                    break;
                }
            }
        } else {
            exp.push(Pull::Err(-109));
            handler_error = Some(-109);
            break;
        }
    }
    if handler_error.is_none() {
        for j in 0..c.opt as usize {
            let i = c.req as usize + j;
            if i < n {
                consumed += 1;
                match conv(i) {
                    Ok(v) => exp.push(Pull::Val(v)),
                    Err(e) => {
                        exp.push(Pull::Err(e));
                        handler_error = Some(e);
                        break;
                    }
                }
            } else {
                exp.push(Pull::Absent);
                break;
            }
        }
    }
    let got: Vec<Pull> = dev.pulls.iter().filter(|p| p.handler == H_OBS).map(|p| p.pull).collect();
    if got != exp {
        let key = if got.iter().zip(exp.iter()).any(|(g, e)| *g == Pull::Absent && *e != Pull::Absent) { "present-element-reported-absent" } else { "typed-pull-sequence" };
        return Err((key.into(), format!("`{m}`: handler pulls {}+{} typed (u8) parameters and saw {:?}, expected {:?}", c.req, c.opt, got, exp)));
    }
    let want: Result<(), i16> = if let Some(e) = handler_error {
        Err(e)
    } else if n > consumed {
        Err(-108)
    } else {
        Ok(())
    };
    let gotr = r.map_err(|e| e.get_code());
    if gotr != want {
        return Err(("typed-wrong-result".into(), format!("`{m}`: typed handler {}+{}: returned {:?}, expected {:?}", c.req, c.opt, gotr, want)));
    }
    Ok(())
}

pub fn enumerate(max_n: usize, all_elems: bool) -> Vec<Case> {
    let _ = all_elems;
    let ne = ELEMS.len();
    let mut tuples: Vec<Vec<usize>> = vec![vec![]];
    let mut cur: Vec<Vec<usize>> = vec![vec![]];
    for _ in 0..max_n {
        let mut next = vec![];
        for t in &cur {
            for e in 0..ne {
                let mut q = t.clone();
                q.push(e);
                next.push(q);
            }
        }
        tuples.extend(next.iter().cloned());
        cur = next;
    }
    let mut out = vec![];
    for t in &tuples {
        for req in 0..=3u8 {
            for opt in 0..=(4 - req).min(3) {
                for pos in 0..3u8 {
                    for tail in 0..4u8 {
                        if pos != 2 && tail == 3 {
                            continue;
                        }
                        for query in [false, true] {
                            // rotate the cheap dimensions instead of multiplying them
                            let sepstyle = ((t.len() + req as usize + pos as usize) % 2) as u8;
                            let nested = (t.len() + opt as usize + tail as usize) % 3 == 0;
                            let colon = (t.len() + req as usize + opt as usize + tail as usize + query as usize) % 2 == 1;
                            let case = Case {
                                colon,
                                elems: t.clone(),
                                req,
                                opt,
                                pos,
                                tail,
                                query,
                                sepstyle,
                                nested,
                                omit: false,
                            };
                            if nested {
                                // the same unit with the default leaf's mnemonic left out
                                out.push(Case { omit: true, ..case.clone() });
                            }
                            out.push(case);
                        }
                    }
                }
            }
        }
    }
    out
}

/// Indefinite-length blocks (`#0`): the element extends to the terminating NL of the message, so
/// separators and newlines inside it belong to the unit, and nothing after it is another unit.
/// (prefix, expected tokens in front of the block given as (kind, start, end))
pub fn indefinite_cases() -> Vec<(Vec<u8>, Vec<TokRec>, usize)> {
    let prefixes: Vec<(&str, Vec<TokRec>, usize)> = vec![
        ("OBS ", vec![], 0),
        ("OBS 42,", vec![TokRec::Num(4, 6)], 0),
        ("NB 77;OBS ", vec![], 1),
        ("BR:NB 1;OBS 'q',", vec![TokRec::Str(13, 14)], 1),
    ];
    let payloads: Vec<&[u8]> = vec![b"a\n;NB 5,c", b"x\ny", b"\n", b";,\"'#0\n\n;", b"a", b"", b"1,2;NB 9"];
    let mut v = vec![];
    for (p, toks, nb_before) in &prefixes {
        for pl in &payloads {
            let mut m = p.as_bytes().to_vec();
            m.extend_from_slice(b"#0");
            let a = m.len();
            m.extend_from_slice(pl);
            let b = m.len();
            m.push(b'\n');
            let mut t = toks.clone();
            t.push(TokRec::Block(a, b));
            v.push((m, t, *nb_before));
        }
    }
    v
}

pub fn check_indefinite(tree: &'static Node<'static, RigDev>, msg: &[u8], toks: &[TokRec], nb_before: usize) -> Result<(), (String, String)> {
    let mut dev = RigDev::new();
    dev.plan[H_OBS as usize] = Plan { req: 0, opt: 4, ..Plan::NOP };
    dev.plan[H_NB as usize] = Plan::pull(0, 4);
    let mut out = Vec::new();
    let m = esc(msg);
    let r = guarded(|| run_vec(tree, &mut dev, msg, &mut out)).map_err(|p| ("panic".to_string(), format!("`{m}` panicked: {p}")))?;
    if let Err(e) = r {
        return Err(("indefinite-block-rejected".into(), format!("`{m}` failed with {}; the `#0` block runs to the terminating NL and is the unit's last element", e.get_code())));
    }
    let got: Vec<Pull> = dev.pulls.iter().filter(|p| p.handler == H_OBS).map(|p| p.pull).collect();
    let mut exp: Vec<Pull> = toks.iter().map(|t| Pull::Tok(*t)).collect();
    if exp.len() < 4 {
        exp.push(Pull::Absent);
    }
    if got != exp {
        return Err(("indefinite-block-extent".into(), format!("`{m}`: handler saw {:?}, expected {:?} (the block payload is everything up to the final NL)", got, exp)));
    }
    let nb_calls = dev.calls.iter().filter(|c| c.handler == H_NB).count();
    if nb_calls != nb_before {
        return Err(("indefinite-block-content-executed".into(), format!("`{m}`: the neighbour handler ran {nb_calls} times, expected {nb_before}: text inside the block was executed as a unit")));
    }
    Ok(())
}

pub fn run(ctx: &'static Ctx) -> i32 {
    let spec = tree();
    let shared = SharedTree::of(&spec);
    let cases = enumerate(ctx.tier.pick(3, 4), true);
    let total = cases.len() as u64;
    let accs = par_sweep(
        ctx,
        total,
        SweepOpts {
            name: "C06 cases",
            chunk: 512,
            hang_secs: 30,
        },
        || (0u64, 0u64),
        |i, acc: &mut (u64, u64)| {
            let c = &cases[i as usize];
            acc.0 += 1;
            if c.elems.len() != (c.req + c.opt) as usize || c.elems.len() > c.req as usize {
                acc.1 += 1;
            }
            if let Err((k, w)) = check(shared.node(), c) {
                ctx.violation(i, &k, &w, c.to_json());
            }
            acc.0 += 1;
            if let Err((k, w)) = check_typed(shared.node(), c) {
                ctx.violation(i, &k, &w, c.to_json());
            }
        },
        |i| cases[i as usize].to_json(),
    );
    let ind = indefinite_cases();
    for (j, (m, t, nb)) in ind.iter().enumerate() {
        if let Err((k, w)) = check_indefinite(shared.node(), m, t, *nb) {
            ctx.violation(total + j as u64, &k, &w, json!({"kind": "c06-indefinite", "index": j}));
        }
    }
    let (mut runs, mut nt) = (ind.len() as u64, ind.len() as u64);
    for a in accs {
        runs += a.0;
        nt += a.1;
    }
    let s0 = cases[cases.len() / 3].build().0;
    let s1 = cases[cases.len() - 7].build().0;
    let mut c = cov();
    c.insert("evaluations".into(), json!(runs));
    c.insert("distinct_nontrivial".into(), json!(nt));
    c.insert("rule".into(), json!(format!("observed unit `OBS[?]` with every n-tuple (n = 0..{}) over {} data representatives (character, NR3, number+suffix, #H, strings containing `;` and `,` and doubled quotes, block containing `;,;`, expression) x handler pull patterns (r required then o optional, r in 0..3, r+o <= 4) x unit position (first / middle / last, neighbours carry their own distinguishable data) x follower (end of input, NL, blank, trailing `;`) x event/query; separator spelling, nested/flat tree and relative/absolute (`:`) spelling of the observed header rotate. Oracle: pulls return the first min(n, r+o) elements of that unit with identical type and byte range; the next required pull gives -109, the next optional one None; n > r+o fails with -108 and the next unit's handler does not run; neighbours never see the observed unit's data. Each case is run twice: with a handler that pulls raw tokens and with one that uses the typed API (next_data::<u8> / next_optional_data::<u8>), where a present element must be offered (value or conversion error) and never reported absent. Plus a directed family of indefinite-length `#0` blocks whose payload contains NL, `;`, `,` and quotes (the block is everything up to the terminating NL; nothing inside it is another unit). Distinct non-trivial = cases whose arity does not match exactly", ctx.tier.pick(3, 4), ELEMS.len())));
    c.insert("exhaustive".into(), json!(true));
    c.insert("samples".into(), json!([esc(&s0), esc(&s1)]));
    ctx.finish("exploration", c, vec!["token payload ranges are compared as byte offsets into the message (string payloads keep doubled quotes, as C04 fixes)".into()])
}

pub fn replay(case: &Value) -> Result<String, String> {
    if case["kind"] == "c06-indefinite" {
        let ind = indefinite_cases();
        let (m, t, nb) = ind.get(case["index"].as_u64().unwrap_or(0) as usize).unwrap_or_else(|| engine_failure("bad C06 replay index"));
        return check_indefinite(tree().build(), m, t, *nb).map(|_| "conforms".to_string()).map_err(|(k, w)| format!("{k}: {w}"));
    }
    let c = Case::from_json(case).unwrap_or_else(|| engine_failure("bad C06 replay"));
    let t = tree().build();
    check(t, &c).and_then(|_| check_typed(t, &c)).map(|_| "conforms".to_string()).map_err(|(k, w)| format!("{k}: {w}"))
}
