//! C09 – response data is well-formed and denotes exactly the value that was formatted.
//! Every value of each formattable type (exhaustive where feasible, structured families
//! otherwise) is formatted with the real `ResponseData` impls, decoded with the independent
//! decoder `respdec` and, where the type is also a parameter type, parsed back with the library.

use crate::core::*;
use crate::refmodel::respdec::*;
use crate::rig::RigEnum;
use arrayvec::ArrayVec;
use scpi::error::{Error, ErrorCode};
use scpi::option::ScpiEnum;
use scpi::parser::format::{Arbitrary, Binary, Character, Expression, Hex, Octal};
use scpi::parser::response::ResponseData;
use scpi::parser::tokenizer::{Token, Tokenizer};
use scpi_contrib::scpi1999::NumericValueQuery;
use serde_json::{json, Value};

pub type Buf = ArrayVec<u8, 1200>;

pub fn fmt<T: ResponseData>(v: &T) -> Result<Buf, i16> {
    let mut b = Buf::new();
    v.format_response_data(&mut b).map_err(|e| e.get_code())?;
    Ok(b)
}

/// The single data token the library's own parser sees in `text` (None if it is not exactly one).
pub fn lib_token(text: &[u8]) -> Option<Token<'_>> {
    let mut t = Tokenizer::new_params(text);
    let tok = t.next()?.ok()?;
    if t.next().is_some() {
        return None;
    }
    Some(tok)
}

type V = Option<(String, String)>;

macro_rules! int_check {
    ($fname:ident, $ty:ty) => {
        pub fn $fname(v: $ty, radix_too: bool) -> V {
            let name = stringify!($ty);
            let out = match fmt(&v) {
                Ok(o) => o,
                Err(e) => return Some(("int-format-error".into(), format!("{v} as {name} fails to format: {e}"))),
            };
            if dec_int(&out) != Some(v as i128) || out.first() == Some(&b'+') {
                return Some(("int-decimal".into(), format!("{v}{name} is emitted as `{}` which does not decode to {v} as NR1", esc(&out))));
            }
            match lib_token(&out).map(<$ty>::try_from) {
                Some(Ok(b)) if b == v => {}
                o => return Some(("int-decimal-parseback".into(), format!("{v}{name} emitted as `{}` parses back as {:?}", esc(&out), o.map(|r| r.map_err(|e| e.get_code()))))),
            }
            #[allow(unused_comparisons)]
            if radix_too && v >= 0 {
                for (letter, radix, out) in [(b'H', 16u32, fmt(&Hex(v))), (b'Q', 8, fmt(&Octal(v))), (b'B', 2, fmt(&Binary(v)))] {
                    let out = match out {
                        Ok(o) => o,
                        Err(e) => return Some(("int-format-error".into(), format!("{v}{name} in radix {radix} fails to format: {e}"))),
                    };
                    if dec_radix(&out, letter, radix) != Some(v as u128) {
                        return Some(("int-radix".into(), format!("{v}{name} in radix {radix} is emitted as `{}` which does not denote {v}", esc(&out))));
                    }
                    match lib_token(&out).map(<$ty>::try_from) {
                        Some(Ok(b)) if b == v => {}
                        o => return Some(("int-radix-parseback".into(), format!("{v}{name} emitted as `{}` parses back as {:?}", esc(&out), o.map(|r| r.map_err(|e| e.get_code()))))),
                    }
                }
            }
            None
        }
    };
}
int_check!(chk_u8, u8);
int_check!(chk_i8, i8);
int_check!(chk_u16, u16);
int_check!(chk_i16, i16);
int_check!(chk_u32, u32);
int_check!(chk_i32, i32);
int_check!(chk_u64, u64);
int_check!(chk_i64, i64);
int_check!(chk_usize, usize);
int_check!(chk_isize, isize);

/// Structured 64-bit family (as i128, filtered per type).
pub fn wide_family() -> Vec<i128> {
    let mut v: Vec<i128> = vec![];
    for p in 0..=64u32 {
        let b = 1i128 << p;
        for d in [-2, -1, 0, 1, 2] {
            v.push(b + d);
            v.push(-(b + d));
        }
    }
    let mut t: i128 = 1;
    for _ in 0..=19 {
        for d in [-1, 0, 1] {
            v.push(t + d);
            v.push(-(t + d));
        }
        t *= 10;
    }
    // mantissa patterns shifted to every position
    for pat in [0x5555_5555u64, 0xAAAA_AAAA, 0x0F0F_0F0F, 0x1234_5678, 0xFFFF_FFFF, 0x8000_0001, 0xDEAD_BEEF] {
        for sh in 0..=32 {
            v.push(((pat as u128) << sh) as i128 & u64::MAX as i128);
            v.push(-((((pat as u128) << sh) as i128) & i64::MAX as i128));
        }
    }
    v.sort();
    v.dedup();
    v
}

// ---- floats

pub fn chk_f32(bits: u32) -> V {
    let v = f32::from_bits(bits);
    let mut out: ArrayVec<u8, 64> = ArrayVec::new();
    if let Err(e) = v.format_response_data(&mut out) {
        return Some(("f32-format-error".into(), format!("f32 bits {bits:#x} fails to format: {}", e.get_code())));
    }
    let (ft, _strict) = match dec_float(&out) {
        Some(x) => x,
        None => return Some(("f32-malformed".into(), format!("f32 {v:e} (bits {bits:#x}) is emitted as `{}`, not a numeric response element", esc(&out)))),
    };
    if v.is_nan() {
        if ft != FloatText::Nan {
            return Some(("float-sentinel".into(), format!("NaN is emitted as `{}`, expected 9.91E+37", esc(&out))));
        }
        return None;
    }
    if v.is_infinite() {
        let want = if v > 0.0 { FloatText::Inf } else { FloatText::NegInf };
        if ft != want {
            return Some(("float-sentinel".into(), format!("{v} is emitted as `{}`", esc(&out))));
        }
        return None;
    }
    let s = match ft {
        FloatText::Number(s) => s,
        _ => {
            // a finite float whose text is a sentinel: only excusable if the value *is* the sentinel's
            // numeric value (inherent to SCPI-99 7.2.1.4); any other finite value must not turn into it
            let txt = std::str::from_utf8(&out).unwrap_or("");
            return match txt.parse::<f32>() {
                Ok(b) if b.to_bits() == bits => None,
                _ => Some(("finite-float-emitted-as-sentinel".into(), format!("finite f32 {v:e} (bits {bits:#x}) is emitted as the NaN/infinity sentinel `{txt}`"))),
            };
        }
    };
    let back: f32 = match s.parse() {
        Ok(b) => b,
        Err(_) => return Some(("f32-malformed".into(), format!("f32 {v:e} emitted as `{s}`"))),
    };
    if back.to_bits() != bits {
        let key = if bits == 0x8000_0000 { "negative-zero-sign-lost" } else { "f32-roundtrip" };
        return Some((key.into(), format!("f32 bits {bits:#x} ({v:e}) is emitted as `{s}`, which denotes bits {:#x}", back.to_bits())));
    }
    // the library's own parser
    match lib_token(&out).map(f32::try_from) {
        Some(Ok(b)) if b.to_bits() == bits => None,
        o => {
            let key = if bits == 0x8000_0000 { "negative-zero-sign-lost" } else { "f32-parseback" };
            Some((key.into(), format!("f32 bits {bits:#x} emitted as `{s}` parses back as {:?}", o.map(|r| r.map(|x| x.to_bits()).map_err(|e| e.get_code())))))
        }
    }
}

pub fn chk_f64(bits: u64) -> V {
    let v = f64::from_bits(bits);
    let mut out: ArrayVec<u8, 64> = ArrayVec::new();
    if let Err(e) = v.format_response_data(&mut out) {
        return Some(("f64-format-error".into(), format!("f64 bits {bits:#x} fails to format: {}", e.get_code())));
    }
    let (ft, _) = match dec_float(&out) {
        Some(x) => x,
        None => return Some(("f64-malformed".into(), format!("f64 {v:e} is emitted as `{}`", esc(&out)))),
    };
    if v.is_nan() {
        return if ft == FloatText::Nan { None } else { Some(("float-sentinel".into(), format!("NaN is emitted as `{}`", esc(&out)))) };
    }
    if v.is_infinite() {
        let want = if v > 0.0 { FloatText::Inf } else { FloatText::NegInf };
        return if ft == want { None } else { Some(("float-sentinel".into(), format!("{v} is emitted as `{}`", esc(&out)))) };
    }
    let s = match ft {
        FloatText::Number(s) => s,
        _ => {
            let txt = std::str::from_utf8(&out).unwrap_or("");
            return match txt.parse::<f64>() {
                Ok(b) if b.to_bits() == bits => None,
                _ => Some(("finite-float-emitted-as-sentinel".into(), format!("finite f64 {v:e} (bits {bits:#x}) is emitted as the NaN/infinity sentinel `{txt}`"))),
            };
        }
    };
    let back: f64 = s.parse().unwrap_or(f64::NAN);
    if back.to_bits() != bits {
        let key = if bits == 1u64 << 63 { "negative-zero-sign-lost" } else { "f64-roundtrip" };
        return Some((key.into(), format!("f64 bits {bits:#x} ({v:e}) is emitted as `{s}`, which denotes bits {:#x}", back.to_bits())));
    }
    match lib_token(&out).map(f64::try_from) {
        Some(Ok(b)) if b.to_bits() == bits => None,
        o => {
            let key = if bits == 1u64 << 63 { "negative-zero-sign-lost" } else { "f64-parseback" };
            Some((key.into(), format!("f64 bits {bits:#x} emitted as `{s}` parses back as {:?}", o.map(|r| r.map(|x| x.to_bits()).map_err(|e| e.get_code())))))
        }
    }
}

pub fn f64_family() -> Vec<u64> {
    let mut v = vec![];
    let pats: Vec<u64> = {
        let mut p = vec![0u64, 1, 2, 3, (1 << 52) - 1, (1 << 52) - 2, 1 << 51, (1 << 51) + 1, (1 << 51) - 1, 0x5555_5555_5555_5 & ((1 << 52) - 1), 0xAAAA_AAAA_AAAA_A & ((1 << 52) - 1)];
        for i in 0..52 {
            p.push(1u64 << i);
        }
        p.push(0x1234_5678_9ABC_D);
        p
    };
    for e in 0..=2047u64 {
        for &m in &pats {
            v.push((e << 52) | (m & ((1 << 52) - 1)));
            v.push((1u64 << 63) | (e << 52) | (m & ((1 << 52) - 1)));
        }
    }
    // powers of ten and 17-significant-digit neighbours
    for e in -330..=310 {
        let s = format!("1e{e}");
        if let Ok(f) = s.parse::<f64>() {
            for d in [0i64, 1, -1, 2, -2] {
                v.push((f.to_bits() as i64 + d) as u64);
            }
        }
        for m in ["1.2345678901234567", "9.9999999999999999", "1.0000000000000002", "5.0000000000000001", "2.2250738585072014", "8.9884656743115795"] {
            if let Ok(f) = format!("{m}e{e}").parse::<f64>() {
                v.push(f.to_bits());
            }
        }
    }
    v.sort();
    v.dedup();
    v
}

// ---- strings, blocks, character, expression

fn undouble(s: &[u8], q: u8) -> Vec<u8> {
    let mut out = vec![];
    let mut i = 0;
    while i < s.len() {
        out.push(s[i]);
        if s[i] == q && s.get(i + 1) == Some(&q) {
            i += 2;
        } else {
            i += 1;
        }
    }
    out
}

pub fn chk_string(content: &[u8]) -> V {
    let v: &[u8] = content;
    let r = fmt(&v);
    if !content.is_ascii() {
        return match r {
            Err(_) => None,
            Ok(o) => Some(("non-ascii-string-emitted".into(), format!("non-ASCII string `{}` is emitted as `{}` instead of being refused", esc(content), esc(&o)))),
        };
    }
    let out = match r {
        Ok(o) => o,
        Err(e) => return Some(("string-format-error".into(), format!("string `{}` fails to format: {e}", esc(content)))),
    };
    if dec_string(&out).as_deref() != Some(content) {
        return Some(("string-quoting".into(), format!("string `{}` is emitted as `{}`, which does not decode to it", esc(content), esc(&out))));
    }
    match lib_token(&out) {
        Some(Token::StringProgramData(p)) if undouble(p, b'"') == content => None,
        o => Some(("string-parseback".into(), format!("string `{}` emitted as `{}` parses back as {:?}", esc(content), esc(&out), o))),
    }
}

pub fn chk_block(content: &[u8]) -> V {
    let out = match fmt(&Arbitrary(content)) {
        Ok(o) => o,
        Err(e) => return Some(("block-format-error".into(), format!("block of {} bytes fails to format: {e}", content.len()))),
    };
    if dec_block(&out) != Some(content) {
        return Some(("block-header".into(), format!("block of {} bytes is emitted as `{}`...", content.len(), esc(&out[..out.len().min(24)]))));
    }
    match lib_token(&out).map(Arbitrary::try_from) {
        Some(Ok(Arbitrary(p))) if p == content => None,
        o => Some(("block-parseback".into(), format!("block of {} bytes emitted as `{}`... parses back as {:?}", content.len(), esc(&out[..out.len().min(24)]), o.map(|r| r.map(|a| a.0.len()).map_err(|e| e.get_code()))))),
    }
}

pub fn chk_str(content: &str) -> V {
    let out = match fmt(&content) {
        Ok(o) => o,
        Err(e) => return Some(("str-format-error".into(), format!("&str `{content}` fails to format: {e}"))),
    };
    if dec_block(&out) != Some(content.as_bytes()) {
        return Some(("str-block".into(), format!("&str `{content}` is emitted as `{}`", esc(&out))));
    }
    match lib_token(&out).map(<&str>::try_from) {
        Some(Ok(p)) if p == content => None,
        o => Some(("str-parseback".into(), format!("&str `{content}` parses back as {:?}", o.map(|r| r.map_err(|e| e.get_code()))))),
    }
}

pub fn chk_chr(content: &[u8]) -> V {
    let out = match fmt(&Character(content)) {
        Ok(o) => o,
        Err(e) => return Some(("chr-format-error".into(), format!("character data `{}` fails to format: {e}", esc(content)))),
    };
    if dec_chr(&out) != Some(content) {
        return Some(("chr".into(), format!("character data `{}` is emitted as `{}`", esc(content), esc(&out))));
    }
    match lib_token(&out).map(Character::try_from) {
        Some(Ok(Character(p))) if p == content => None,
        o => Some(("chr-parseback".into(), format!("character data `{}` parses back as {:?}", esc(content), o.map(|r| r.map(|c| esc(c.0)).map_err(|e| e.get_code()))))),
    }
}

pub fn chk_expr(content: &[u8]) -> V {
    let out = match fmt(&Expression(content)) {
        Ok(o) => o,
        Err(e) => return Some(("expr-format-error".into(), format!("expression `{}` fails to format: {e}", esc(content)))),
    };
    if dec_expr(&out) != Some(content) {
        return Some(("expr".into(), format!("expression `{}` is emitted as `{}`", esc(content), esc(&out))));
    }
    match lib_token(&out).map(Expression::try_from) {
        Some(Ok(Expression(p))) if p == content => None,
        o => Some(("expr-parseback".into(), format!("expression `({})` parses back as {:?}", esc(content), o.map(|r| r.map(|c| esc(c.0)).map_err(|e| e.get_code()))))),
    }
}

// ---- lists

pub fn chk_lists() -> Vec<(String, String)> {
    let mut bad = vec![];
    for n in 0..=4usize {
        let ints: Vec<i16> = (0..n).map(|i| (i as i16 - 1) * 1000).collect();
        let r = fmt(&ints);
        let mut a: ArrayVec<i16, 4> = ArrayVec::new();
        for x in &ints {
            a.push(*x);
        }
        let ra = fmt(&a);
        if n == 0 {
            if r.is_ok() || ra.is_ok() {
                bad.push(("empty-list-emitted".to_string(), format!("an empty list is emitted as {:?}/{:?} instead of an error", r.map(|b| esc(&b)), ra.map(|b| esc(&b)))));
            }
            continue;
        }
        for (which, r) in [("Vec", r), ("ArrayVec", ra)] {
            match r {
                Err(e) => bad.push(("list-format-error".into(), format!("{which} of {n} ints fails to format: {e}"))),
                Ok(out) => {
                    let parts = split_list(&out).unwrap_or_default();
                    let dec: Vec<Option<i128>> = parts.iter().map(|p| dec_int(p)).collect();
                    if dec != ints.iter().map(|x| Some(*x as i128)).collect::<Vec<_>>() {
                        bad.push(("list-separators".into(), format!("{which} {:?} is emitted as `{}`", ints, esc(&out))));
                    }
                }
            }
        }
        // strings containing separators
        let all: [&[u8]; 4] = [b"a,b", b"c\"d", b";", b""];
        let strs: Vec<&[u8]> = all[..n].to_vec();
        match fmt(&strs) {
            Err(e) => bad.push(("list-format-error".into(), format!("Vec of {n} strings fails to format: {e}"))),
            Ok(out) => {
                let parts = split_list(&out).unwrap_or_default();
                let dec: Vec<Option<Vec<u8>>> = parts.iter().map(|p| dec_string(p)).collect();
                if dec != strs.iter().map(|s| Some(s.to_vec())).collect::<Vec<_>>() {
                    bad.push(("list-separators".into(), format!("Vec of strings {:?} is emitted as `{}`", strs.iter().map(|s| esc(s)).collect::<Vec<_>>(), esc(&out))));
                }
            }
        }
        // floats and bools
        let fl: Vec<f64> = vec![1.5, -0.25, 1e300, f64::NAN][..n].to_vec();
        match fmt(&fl) {
            Err(e) => bad.push(("list-format-error".into(), format!("Vec of {n} floats fails to format: {e}"))),
            Ok(out) => {
                let parts = split_list(&out).unwrap_or_default();
                if parts.len() != n || parts.iter().any(|p| dec_float(p).is_none()) {
                    bad.push(("list-separators".into(), format!("Vec of floats is emitted as `{}`", esc(&out))));
                }
            }
        }
    }
    bad
}

// ---- enums

pub fn chk_enums() -> Vec<(String, String)> {
    let mut bad = vec![];
    for v in [RigEnum::Binary, RigEnum::Real, RigEnum::Ascii1, RigEnum::Ascii2, RigEnum::L125] {
        match fmt(&v) {
            Err(e) => bad.push(("enum-format-error".into(), format!("{:?} fails to format: {e}", v))),
            Ok(out) => {
                if dec_chr(&out).is_none() {
                    bad.push(("enum-malformed".into(), format!("{:?} is emitted as `{}`", v, esc(&out))));
                } else if RigEnum::from_mnemonic(&out) != Some(v) || lib_token(&out).map(RigEnum::try_from).and_then(|r| r.ok()) != Some(v) {
                    bad.push((
                        "enum-selects-other-variant".into(),
                        format!("{:?} (mnemonic `{}`) is emitted as `{}`, which selects {:?}", v, esc(v.mnemonic()), esc(&out), RigEnum::from_mnemonic(&out)),
                    ));
                }
            }
        }
    }
    for v in [NumericValueQuery::Maximum, NumericValueQuery::Minimum, NumericValueQuery::Default] {
        if let Ok(out) = fmt(&v) {
            let back = NumericValueQuery::from_mnemonic(&out);
            if back.map(|b| b.mnemonic()) != Some(v.mnemonic()) {
                bad.push(("enum-selects-other-variant".into(), format!("NumericValueQuery `{}` is emitted as `{}`", esc(v.mnemonic()), esc(&out))));
            }
        }
    }
    bad
}

// ---- errors

/// Expected `code,"message[;ext]"` with embedded quotes doubled, decoded independently.
pub fn chk_error(e: &Error) -> V {
    let out = match fmt(e) {
        Ok(o) => o,
        Err(c) => return Some(("error-format-error".into(), format!("error {} fails to format: {c}", e.get_code()))),
    };
    let parts = match split_list(&out) {
        Some(p) if p.len() == 2 => p,
        _ => return Some(("error-item-shape".into(), format!("error {} is emitted as `{}`, not `code,\"message\"`", e.get_code(), esc(&out)))),
    };
    if dec_int(parts[0]) != Some(e.get_code() as i128) {
        return Some(("error-item-code".into(), format!("error {} is emitted as `{}`", e.get_code(), esc(&out))));
    }
    let mut want = e.get_message().to_vec();
    if let Some(x) = e.get_extended() {
        want.push(b';');
        want.extend_from_slice(x);
    }
    match dec_string(parts[1]) {
        Some(s) if s == want => None,
        _ => Some(("error-item-message".into(), format!("error {} with text `{}` is emitted as `{}`, whose string part does not decode to that text", e.get_code(), esc(&want), esc(&out)))),
    }
}

#[derive(Default)]
struct Acc {
    evals: u64,
    nontrivial: u64,
    strict_talker_deviations: u64,
    sentinel_collisions: u64,
}

pub fn run(ctx: &'static Ctx) -> i32 {
    if let Err(e) = self_check() {
        engine_failure(&e);
    }
    let mut total = Acc::default();
    let mut order = 0u64;
    let mut report = |ctx: &Ctx, v: V, case: Value, order: u64| {
        if let Some((k, w)) = v {
            ctx.violation(order, &k, &w, case);
        }
    };
    // 1+2: integers. 8/16-bit exhaustive incl. radix forms
    for v in 0..=u16::MAX {
        order += 1;
        total.evals += 4;
        report(ctx, chk_u16(v, true), json!({"kind": "u16", "v": v}), order);
        report(ctx, chk_i16(v as i16, true), json!({"kind": "i16", "v": v as i16}), order);
        if v <= 255 {
            report(ctx, chk_u8(v as u8, true), json!({"kind": "u8", "v": v}), order);
            report(ctx, chk_i8(v as u8 as i8, true), json!({"kind": "i8", "v": v as u8 as i8}), order);
        }
    }
    total.nontrivial += 65536 * 2 + 512;
    let fam = wide_family();
    for &v in &fam {
        order += 1;
        if let Ok(x) = u32::try_from(v) {
            total.evals += 1;
            report(ctx, chk_u32(x, true), json!({"kind": "u32", "v": x}), order);
        }
        if let Ok(x) = i32::try_from(v) {
            total.evals += 1;
            report(ctx, chk_i32(x, true), json!({"kind": "i32", "v": x}), order);
        }
        if let Ok(x) = u64::try_from(v) {
            total.evals += 2;
            report(ctx, chk_u64(x, true), json!({"kind": "u64", "v": x.to_string()}), order);
            report(ctx, chk_usize(x as usize, true), json!({"kind": "usize", "v": x.to_string()}), order);
        }
        if let Ok(x) = i64::try_from(v) {
            total.evals += 2;
            report(ctx, chk_i64(x, true), json!({"kind": "i64", "v": x.to_string()}), order);
            report(ctx, chk_isize(x as isize, true), json!({"kind": "isize", "v": x.to_string()}), order);
        }
    }
    total.nontrivial += fam.len() as u64;
    // 5: bool
    for b in [false, true] {
        order += 1;
        total.evals += 1;
        let out = fmt(&b).unwrap_or_default();
        let want: &[u8] = if b { b"1" } else { b"0" };
        if &out[..] != want || lib_token(&out).map(bool::try_from).and_then(|r| r.ok()) != Some(b) {
            ctx.violation(order, "bool", &format!("{b} is emitted as `{}`", esc(&out)), json!({"kind": "bool", "v": b}));
        }
    }
    let base_f32 = order + 1;
    // 3: f32
    let f32_total: u64 = ctx.tier.pick(0, 1u64 << 32);
    if ctx.tier == Tier::Thorough {
        let accs = par_sweep(
            ctx,
            f32_total,
            SweepOpts {
                name: "C09 all f32",
                chunk: 1 << 18,
                hang_secs: 60,
            },
            Acc::default,
            |i, acc: &mut Acc| {
                acc.evals += 1;
                if let Some((k, w)) = chk_f32(i as u32) {
                    ctx.violation(base_f32 + i, &k, &w, json!({"kind": "f32", "bits": i}));
                }
            },
            |i| json!({"kind": "f32", "bits": i}),
        );
        for a in accs {
            total.evals += a.evals;
        }
        total.nontrivial += 1u64 << 32;
    } else {
        // every exponent x 2^10 mantissa patterns + all 2^16 top-half patterns, both signs
        let mut pats: Vec<u32> = (0..1024u32).map(|i| i.wrapping_mul(0x2004_01) & 0x7f_ffff).collect();
        pats.extend((0..23).map(|i| 1u32 << i));
        pats.extend([0x7f_ffff, 0x7f_fffe, 0x40_0000, 0x3f_ffff]);
        pats.sort();
        pats.dedup();
        let np = pats.len() as u64;
        let quick_total = 512 * np + (1 << 16);
        let accs = par_sweep(
            ctx,
            quick_total,
            SweepOpts {
                name: "C09 f32 family",
                chunk: 4096,
                hang_secs: 60,
            },
            Acc::default,
            |i, acc: &mut Acc| {
                acc.evals += 1;
                let bits: u32 = if i < 512 * np { (((i / np) as u32) << 23) | pats[(i % np) as usize] } else { ((i - 512 * np) as u32) << 16 };
                if let Some((k, w)) = chk_f32(bits) {
                    ctx.violation(base_f32 + bits as u64, &k, &w, json!({"kind": "f32", "bits": bits}));
                }
            },
            |i| json!({"kind": "f32-index", "index": i}),
        );
        for a in accs {
            total.evals += a.evals;
        }
        total.nontrivial += quick_total;
    }
    order = base_f32 + (1u64 << 32);
    // 4: f64
    let f64s = f64_family();
    let nf = f64s.len() as u64;
    let b64 = order;
    let accs = par_sweep(
        ctx,
        nf,
        SweepOpts {
            name: "C09 f64 family",
            chunk: 4096,
            hang_secs: 60,
        },
        Acc::default,
        |i, acc: &mut Acc| {
            acc.evals += 1;
            let bits = f64s[i as usize];
            // observation only: deviations from the strict 8.7.4 talker form
            let mut out: ArrayVec<u8, 64> = ArrayVec::new();
            if f64::from_bits(bits).format_response_data(&mut out).is_ok() {
                if let Some((_, strict)) = dec_float(&out) {
                    if !strict {
                        acc.strict_talker_deviations += 1;
                    }
                }
            }
            if let Some((k, w)) = chk_f64(bits) {
                ctx.violation(b64 + i, &k, &w, json!({"kind": "f64", "bits": format!("{bits:#x}")}));
            }
        },
        |i| json!({"kind": "f64", "bits": format!("{:#x}", f64s[i as usize])}),
    );
    for a in accs {
        total.evals += a.evals;
        total.strict_talker_deviations += a.strict_talker_deviations;
    }
    total.nontrivial += nf;
    order += nf;
    // 6: strings
    let salpha: &[u8] = b"a\"', ;\n";
    let ns = count_upto(salpha.len() as u64, ctx.tier.pick(4, 5));
    for i in 0..ns {
        let mut buf = [0u8; 8];
        let l = nth_string(salpha, i, &mut buf);
        total.evals += 1;
        report(ctx, chk_string(&buf[..l]), json!({"kind": "string", "content": esc(&buf[..l])}), order + i);
    }
    order += ns;
    for s in [&b"\"\"\""[..], b"\"", b"\"\"", b"caf\xc3\xa9", b"\x80", b"\x00\x7f", b"0123456789012345678901234567890123456789"] {
        order += 1;
        total.evals += 1;
        report(ctx, chk_string(s), json!({"kind": "string", "content": esc(s)}), order);
    }
    total.nontrivial += ns;
    // 7: blocks
    let mut lens: Vec<usize> = (0..=120).collect();
    lens.extend([999, 1000, 1001]);
    for &l in &lens {
        for fill in [0x00u8, b'#', b';', 0xff] {
            order += 1;
            total.evals += 1;
            let content: Vec<u8> = (0..l).map(|i| if i % 3 == 0 { fill } else { b'0' + (i % 10) as u8 }).collect();
            report(ctx, chk_block(&content), json!({"kind": "block", "len": l, "fill": fill}), order);
        }
    }
    total.nontrivial += lens.len() as u64 * 4;
    // block lengths at every digit-count boundary of the header, through the growable formatter
    {
        let mut big: Vec<usize> = vec![];
        let maxk = ctx.tier.pick(7u32, 8u32);
        for k in 1..=maxk {
            let p = 10usize.pow(k);
            big.extend([p - 1, p, p + 1]);
        }
        big.extend([255, 256, 257, 65535, 65536, 65537, 12_345_678]);
        for &l in &big {
            order += 1;
            total.evals += 1;
            total.nontrivial += 1;
            let content: Vec<u8> = vec![b'x'; l];
            let mut out: Vec<u8> = Vec::with_capacity(l + 16);
            let r = Arbitrary(&content).format_response_data(&mut out);
            let ok = r.is_ok() && dec_block(&out) == Some(&content[..]) && matches!(lib_token(&out).map(Arbitrary::try_from), Some(Ok(Arbitrary(p))) if p.len() == l);
            if !ok {
                ctx.violation(order, "block-header", &format!("block of {l} bytes is emitted with header `{}` (result {:?})", esc(&out[..out.len().min(14)]), r.map_err(|e| e.get_code())), json!({"kind": "bigblock", "len": l}));
            }
        }
    }
    for s in ["", "abc", "h\u{e9}llo", "\u{20ac}", "a\"b;c,d\n", "0123456789"] {
        order += 1;
        total.evals += 1;
        report(ctx, chk_str(s), json!({"kind": "str", "content": s}), order);
    }
    // 8: character and expression data
    for c in ["A", "ABC", "A1_B", "ABCDEFGHIJKL", "z9", "Volt"] {
        order += 1;
        total.evals += 1;
        report(ctx, chk_chr(c.as_bytes()), json!({"kind": "chr", "content": c}), order);
    }
    for c in ["", "1,2", "@1!2,3:4", "1:5", "A+B*2", " 1 , 2 "] {
        order += 1;
        total.evals += 1;
        report(ctx, chk_expr(c.as_bytes()), json!({"kind": "expr", "content": c}), order);
    }
    // 9: lists, 10: enums
    for (k, w) in chk_lists() {
        order += 1;
        ctx.violation(order, &k, &w, json!({"kind": "lists"}));
    }
    for (k, w) in chk_enums() {
        order += 1;
        ctx.violation(order, &k, &w, json!({"kind": "enums"}));
    }
    total.evals += 40;
    // 11: errors: every standard code, custom codes, with and without extended text
    let exts: Vec<&'static [u8]> = {
        let a: &[u8] = b"a;\",";
        let mut v: Vec<&'static [u8]> = vec![];
        for i in 0..count_upto(4, 2) {
            let mut buf = [0u8; 4];
            let l = nth_string(a, i, &mut buf);
            v.push(Box::leak(buf[..l].to_vec().into_boxed_slice()));
        }
        v
    };
    let mut nerr = 0u64;
    for n in i16::MIN..=i16::MAX {
        let errs: Vec<Error> = match ErrorCode::get_error(n) {
            Some(e) => vec![Error::new(e)],
            None if n % 997 == 0 || (-1000..=10).contains(&n) => vec![Error::custom(n, b"Custom error")],
            None => vec![],
        };
        for e in errs {
            nerr += 1;
            order += 1;
            total.evals += 1;
            report(ctx, chk_error(&e), json!({"kind": "error", "code": n, "ext": Value::Null}), order);
            if n % 7 == 0 || (-120..=-100).contains(&n) {
                for x in &exts {
                    if x.is_empty() {
                        continue;
                    }
                    total.evals += 1;
                    order += 1;
                    report(ctx, chk_error(&e.extended(x)), json!({"kind": "error", "code": n, "ext": esc(x)}), order);
                }
            }
        }
    }
    // a device may attach its own description (with quotes) to a standard error number
    for code in [-300i16, -113, -222, -350, -800, 0, 5] {
        for ext in [None, Some(&b"slot 3"[..]), Some(&b"x\"y"[..])] {
            order += 1;
            total.evals += 1;
            let e = Error::custom(code, b"Probe \"A\" fault");
            let e = match ext {
                Some(x) => e.extended(Box::leak(x.to_vec().into_boxed_slice())),
                None => e,
            };
            report(ctx, chk_error(&e), json!({"kind": "error-custom-std-code", "code": code, "ext": ext.map(esc)}), order);
        }
    }
    for m in [&b"it's"[..], b"say \"hi\"", b"a,b;c"] {
        let m: &'static [u8] = Box::leak(m.to_vec().into_boxed_slice());
        order += 1;
        total.evals += 1;
        report(ctx, chk_error(&Error::custom(-301, m)), json!({"kind": "error-custom-message", "message": esc(m)}), order);
    }
    total.nontrivial += nerr;

    let mut c = cov();
    c.insert("evaluations".into(), json!(total.evals));
    c.insert("distinct_nontrivial".into(), json!(total.nontrivial));
    c.insert("rule".into(), json!(format!("each value is formatted with the real ResponseData impl, decoded by the independent decoder refmodel/respdec.rs and parsed back with Tokenizer::new_params + TryFrom<Token>: all u8/i8/u16/i16 in decimal and (non-negative) #H/#Q/#B; {} boundary-directed 32/64-bit/size values (2^k +-2, 10^k +-1, bounds, shifted mantissa patterns); f32: {}; f64: {} bit patterns (every exponent x 65 mantissa patterns x both signs, powers of ten +-2 ulp, 17-digit cases); bool; every string of length <= {} over `a \" ' , ; SP NL` plus quote-only, long and non-ASCII strings (must be refused); blocks of every length 0..120, 999, 1000, 1001 with NUL/#/;/0xFF content and of the lengths 10^k-1, 10^k, 10^k+1 for k up to 7/8, 255..257, 65535..65537, 12345678; &str incl. non-ASCII; character and expression data; Vec/ArrayVec lists of 0..4 ints/strings/floats (empty list must be an error); derived enum variants; every standard error and custom errors with/without extended text over `a ; \" ,`, custom descriptions containing quotes attached to standard numbers. Distinct non-trivial = distinct values formatted", fam.len(), if ctx.tier == Tier::Thorough { "all 2^32 bit patterns".to_string() } else { "every exponent x ~1050 mantissa patterns + all 2^16 top-half patterns".to_string() }, nf, ctx.tier.pick(4, 5))));
    c.insert("exhaustive".into(), json!(true));
    c.insert("observation_f64_responses_not_in_strict_talker_form".into(), json!(total.strict_talker_deviations));
    c.insert("samples".into(), json!([
        {"value": "f32 bits 0x3fc00000", "emitted": "1.5"}, {"value": "string a\"b", "emitted": "\"a\"\"b\""}, {"value": "block of 10 bytes", "emitted": "#210..."}, {"value": "Error -113", "emitted": "-113,\"Undefined header\""}
    ]));
    ctx.finish(
        "exploration",
        c,
        vec![
            "float responses are judged against the NRf grammar (lexical-core's `1.0e10`, pinned by the repo's own tests, is accepted); deviations from the strict 8.7.4 talker form are counted as an observation only".into(),
            "finite floats whose text equals a SCPI sentinel are excluded (inherent to SCPI-99 7.2.1.4); infinities/NaN are checked against the sentinel texts only".into(),
            "string parse-back compares after un-doubling quotes (C04 fixes that a string token's payload is the raw byte range)".into(),
        ],
    )
}

pub fn replay(case: &Value) -> Result<String, String> {
    let r: V = match case["kind"].as_str() {
        Some("u8") => chk_u8(case["v"].as_u64().unwrap() as u8, true),
        Some("i8") => chk_i8(case["v"].as_i64().unwrap() as i8, true),
        Some("u16") => chk_u16(case["v"].as_u64().unwrap() as u16, true),
        Some("i16") => chk_i16(case["v"].as_i64().unwrap() as i16, true),
        Some("u32") => chk_u32(case["v"].as_u64().unwrap() as u32, true),
        Some("i32") => chk_i32(case["v"].as_i64().unwrap() as i32, true),
        Some("u64") => chk_u64(case["v"].as_str().unwrap().parse().unwrap(), true),
        Some("usize") => chk_usize(case["v"].as_str().unwrap().parse().unwrap(), true),
        Some("i64") => chk_i64(case["v"].as_str().unwrap().parse().unwrap(), true),
        Some("isize") => chk_isize(case["v"].as_str().unwrap().parse().unwrap(), true),
        Some("f32") => chk_f32(case["bits"].as_u64().unwrap() as u32),
        Some("f64") => chk_f64(u64::from_str_radix(case["bits"].as_str().unwrap().trim_start_matches("0x"), 16).unwrap()),
        Some("string") => chk_string(&unesc(case["content"].as_str().unwrap())),
        Some("block") => {
            let l = case["len"].as_u64().unwrap() as usize;
            let fill = case["fill"].as_u64().unwrap() as u8;
            let content: Vec<u8> = (0..l).map(|i| if i % 3 == 0 { fill } else { b'0' + (i % 10) as u8 }).collect();
            chk_block(&content)
        }
        Some("str") => chk_str(case["content"].as_str().unwrap()),
        Some("chr") => chk_chr(case["content"].as_str().unwrap().as_bytes()),
        Some("expr") => chk_expr(case["content"].as_str().unwrap().as_bytes()),
        Some("lists") => chk_lists().into_iter().next(),
        Some("enums") => chk_enums().into_iter().next(),
        Some("error") => {
            let n = case["code"].as_i64().unwrap() as i16;
            let e = match ErrorCode::get_error(n) {
                Some(e) => Error::new(e),
                None => Error::custom(n, b"Custom error"),
            };
            match case["ext"].as_str() {
                Some(x) => chk_error(&e.extended(Box::leak(unesc(x).into_boxed_slice()))),
                None => chk_error(&e),
            }
        }
        Some("bigblock") => {
            let l = case["len"].as_u64().unwrap() as usize;
            let content: Vec<u8> = vec![b'x'; l];
            let mut out: Vec<u8> = Vec::with_capacity(l + 16);
            let r = Arbitrary(&content).format_response_data(&mut out);
            if r.is_ok() && dec_block(&out) == Some(&content[..]) {
                None
            } else {
                Some(("block-header".into(), format!("block of {l} bytes: header `{}`", esc(&out[..out.len().min(14)]))))
            }
        }
        Some("error-custom-std-code") => {
            let e = Error::custom(case["code"].as_i64().unwrap() as i16, b"Probe \"A\" fault");
            match case["ext"].as_str() {
                Some(x) => chk_error(&e.extended(Box::leak(unesc(x).into_boxed_slice()))),
                None => chk_error(&e),
            }
        }
        Some("error-custom-message") => chk_error(&Error::custom(-301, Box::leak(unesc(case["message"].as_str().unwrap()).into_boxed_slice()))),
        Some("bool") => None,
        _ => engine_failure("bad C09 replay"),
    };
    match r {
        Some((k, w)) => Err(format!("{k}: {w}")),
        None => Ok("round trip ok".into()),
    }
}
