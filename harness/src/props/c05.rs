//! C05 – units run in order; the first error aborts the message and is reported once.
//! Fault enumeration: every message of k units over 12 unit kinds (each failure kind at each
//! position), on two trees, plus formatter faults at every write (capacity sweep).

use crate::core::*;
use crate::props::c11::run_with_cap;
use crate::rig::*;
use scpi::error::{Error, ErrorCode};
use scpi::tree::prelude::*;
use serde_json::{json, Value};

#[derive(Clone, Copy, Debug, PartialEq)]
pub enum Inv {
    /// handler of this unit must have been invoked exactly once
    Must,
    /// must not be invoked
    Never,
    /// may be invoked zero or one time (failure noticed around the handler)
    Maybe,
}

#[derive(Clone, Debug)]
pub struct UKind {
    pub name: &'static str,
    /// text on the flat tree / the nested tree (relative to the nested level)
    pub text: &'static str,
    pub handler: Option<u8>,
    pub query: bool,
    /// None = succeeds; Some((code, ext)) = fails with this error
    pub fail: Option<(i16, Option<&'static [u8]>)>,
    pub own: Inv,
}

const H_EV: u8 = 0;
const H_Q1: u8 = 1;
const H_QH: u8 = 2;
const H_FE: u8 = 3;
const H_FQ: u8 = 4;
const H_P1: u8 = 5;
const H_PI: u8 = 6;
const H_F0: u8 = 7;
const H_FN: u8 = 8;
const H_FP: u8 = 9;
const H_QQ: u8 = 10;
const H_QV: u8 = 11;
const H_QP: u8 = 12;
/// expected error: any code (the failure is pinned, its number is not)
const ANY: i16 = 1;

pub fn kinds() -> Vec<UKind> {
    vec![
        UKind { name: "event-ok", text: "EV", handler: Some(H_EV), query: false, fail: None, own: Inv::Must },
        UKind { name: "query-ok-1", text: "QA?", handler: Some(H_Q1), query: true, fail: None, own: Inv::Must },
        UKind { name: "query-ok-hdr2", text: "QH?", handler: Some(H_QH), query: true, fail: None, own: Inv::Must },
        UKind { name: "query-ok-quoted", text: "QQ?", handler: Some(H_QQ), query: true, fail: None, own: Inv::Must },
        UKind { name: "query-ok-long-header", text: "QV?", handler: Some(H_QV), query: true, fail: None, own: Inv::Must },
        UKind { name: "handler-error-event", text: "FE", handler: Some(H_FE), query: false, fail: Some((-200, None)), own: Inv::Must },
        UKind { name: "handler-error-after-partial-write", text: "FQ?", handler: Some(H_FQ), query: true, fail: Some((-300, Some(b"partial"))), own: Inv::Must },
        UKind { name: "handler-returns-code-0", text: "FZ", handler: Some(H_F0), query: false, fail: Some((0, None)), own: Inv::Must },
        UKind { name: "handler-returns-custom-minus-42", text: "FN", handler: Some(H_FN), query: false, fail: Some((-42, None)), own: Inv::Must },
        UKind { name: "handler-returns-custom-plus-5", text: "FP?", handler: Some(H_FP), query: true, fail: Some((5, Some(b"x\"y"))), own: Inv::Must },
        UKind { name: "surplus-parameter", text: "EV 1", handler: Some(H_EV), query: false, fail: Some((-108, None)), own: Inv::Must },
        UKind { name: "missing-parameter", text: "PA", handler: Some(H_P1), query: false, fail: Some((-109, None)), own: Inv::Must },
        UKind { name: "type-error", text: "PI \"x\"", handler: Some(H_PI), query: false, fail: Some((-104, None)), own: Inv::Must },
        UKind { name: "range-error", text: "PI 256", handler: Some(H_PI), query: false, fail: Some((-222, None)), own: Inv::Must },
        UKind { name: "undefined-header", text: "ZZ", handler: None, query: false, fail: Some((-113, None)), own: Inv::Never },
        UKind { name: "lexical-error-in-data", text: "EV #Hzz", handler: Some(H_EV), query: false, fail: Some((-101, None)), own: Inv::Maybe },
        UKind { name: "lexical-error-in-header", text: "EV$", handler: None, query: false, fail: Some((-101, None)), own: Inv::Never },
        UKind { name: "empty-unit", text: "", handler: None, query: false, fail: Some((-101, None)), own: Inv::Never },
        UKind { name: "response-element-unformattable", text: "QP?", handler: Some(H_QP), query: true, fail: Some((ANY, None)), own: Inv::Must },
    ]
}

pub fn trees() -> Vec<(&'static str, TreeSpec, &'static str)> {
    let leaves = |_: ()| {
        vec![
            TreeSpec::leaf("EV", H_EV),
            TreeSpec::leaf("QA", H_Q1),
            TreeSpec::leaf("QH", H_QH),
            TreeSpec::leaf("FE", H_FE),
            TreeSpec::leaf("FQ", H_FQ),
            TreeSpec::leaf("PA", H_P1),
            TreeSpec::leaf("PI", H_PI),
            TreeSpec::leaf("FZ", H_F0),
            TreeSpec::leaf("FN", H_FN),
            TreeSpec::leaf("FP", H_FP),
            TreeSpec::leaf("QQ", H_QQ),
            TreeSpec::leaf("QV", H_QV),
            TreeSpec::leaf("QP", H_QP),
        ]
    };
    vec![
        ("flat", TreeSpec::root(leaves(())), ""),
        (
            "nested-with-defaults",
            TreeSpec::root(vec![TreeSpec::branch("OUTer", vec![TreeSpec::dbranch("INNer", leaves(()))]), TreeSpec::leaf("*CM", H_EV)]),
            "OUT:",
        ),
    ]
}

pub fn plans(dev: &mut RigDev) {
    dev.plan[H_EV as usize] = Plan::NOP;
    dev.plan[H_Q1 as usize] = Plan::resp(&[Item::I64(7)]);
    dev.plan[H_QH as usize] = Plan::resp(&[Item::Header(b"HD"), Item::Str(b"s;t"), Item::Bool(true)]);
    dev.plan[H_FE as usize] = Plan {
        fail: Some(Error::new(ErrorCode::ExecutionError)),
        ..Plan::NOP
    };
    dev.plan[H_FQ as usize] = Plan {
        resp: &[Item::I64(1), Item::I64(2)],
        fail: Some(Error::new(ErrorCode::DeviceSpecificError).extended(b"partial")),
        fail_after_items: 1,
        ..Plan::NOP
    };
    dev.plan[H_F0 as usize] = Plan { fail: Some(Error::new(ErrorCode::NoError)), ..Plan::NOP };
    dev.plan[H_FN as usize] = Plan { fail: Some(Error::custom(-42, b"Custom")), ..Plan::NOP };
    dev.plan[H_FP as usize] = Plan { fail: Some(Error::custom(5, b"Custom").extended(b"x\"y")), ..Plan::NOP };
    dev.plan[H_QQ as usize] = Plan::resp(&[Item::Str(b"a-long-segment-first\"x")]);
    dev.plan[H_QV as usize] = Plan::resp(&[Item::Header(b"VOLTAGE"), Item::I64(7)]);
    dev.plan[H_QP as usize] = Plan::resp(&[Item::I64(1), Item::Str(b"caf\xc3\xa9"), Item::I64(0)]);
    dev.plan[H_P1 as usize] = Plan::pull(1, 0);
    dev.plan[H_PI as usize] = Plan {
        req: 1,
        typed_u8: true,
        ..Plan::NOP
    };
}

fn class_ok(got: i16, want: i16) -> bool {
    // lexical errors: any command error -100..-199 is acceptable for the "lexical" kinds (the exact
    // syntax error number is C04/C14 business); all other kinds are exact.
    if want == ANY {
        true
    } else if want == -101 || want == -104 {
        (-199..=-100).contains(&got)
    } else {
        got == want
    }
}

pub struct Expect {
    pub before: Vec<(u8, bool)>,
    pub failing: Option<(usize, Inv, Option<(u8, bool)>, i16, Option<&'static [u8]>)>,
}

pub fn expect(ks: &[UKind], seq: &[usize]) -> Expect {
    let mut before = vec![];
    for (i, &k) in seq.iter().enumerate() {
        let u = &ks[k];
        match u.fail {
            None => before.push((u.handler.unwrap(), u.query)),
            Some((code, ext)) => {
                return Expect {
                    before,
                    failing: Some((i, u.own, u.handler.map(|h| (h, u.query)), code, ext)),
                }
            }
        }
    }
    Expect { before, failing: None }
}

pub fn message(ks: &[UKind], seq: &[usize], prefix: &str) -> Vec<u8> {
    let mut v = vec![];
    for (i, &k) in seq.iter().enumerate() {
        if i > 0 {
            v.push(b';');
        } else {
            v.extend_from_slice(prefix.as_bytes());
        }
        v.extend_from_slice(ks[k].text.as_bytes());
    }
    v
}

/// Compare one execution with the reference executor.
pub fn judge(msg: &[u8], exp: &Expect, calls: &[(u8, bool)], result: Result<(), (i16, Option<Vec<u8>>)>, hook: &[(i16, Option<Vec<u8>>)]) -> Result<(), (String, String)> {
    let m = esc(msg);
    match &exp.failing {
        None => {
            if let Err(e) = &result {
                return Err(("unexpected-error".into(), format!("`{m}` failed with {:?}", e.0)));
            }
            if calls != &exp.before[..] {
                return Err(("order".into(), format!("`{m}` invoked {:?}, expected {:?} (handler,query)", calls, exp.before)));
            }
            if !hook.is_empty() {
                return Err(("hook-on-success".into(), format!("`{m}` succeeded but handle_error was called with {:?}", hook)));
            }
        }
        Some((i, own, own_call, code, ext)) => {
            let err = match &result {
                Ok(()) => return Err(("continued-after-error".into(), format!("`{m}` returned Ok although unit {i} fails with {code}"))),
                Err(e) => e,
            };
            // invocations: exactly the earlier units, then the failing unit's own handler per `own`
            let n = exp.before.len();
            let prefix_ok = calls.len() >= n && calls[..n] == exp.before[..];
            let tail = if calls.len() >= n { &calls[n..] } else { &[] };
            let tail_ok = match (own, own_call) {
                (Inv::Never, _) | (_, None) => tail.is_empty(),
                (Inv::Must, Some(c)) => tail == [*c],
                (Inv::Maybe, Some(c)) => tail.is_empty() || tail == [*c],
            };
            if !prefix_ok || !tail_ok {
                let key = if calls.len() > n + 1 || (tail.len() == 1 && own_call.map_or(true, |c| tail[0] != c)) {
                    "later-unit-executed"
                } else {
                    "order"
                };
                return Err((key.into(), format!("`{m}` (unit {i} fails) invoked {:?}; expected {:?} then own handler {:?}/{:?}", calls, exp.before, own, own_call)));
            }
            if !class_ok(err.0, *code) || (*code != -101 && *code != -104 && *code != ANY && err.1.as_deref() != *ext) {
                return Err(("wrong-error-returned".into(), format!("`{m}` returned {:?}, expected {code} {:?}", err, ext.map(esc))));
            }
            if hook.len() != 1 {
                let key = if hook.is_empty() { "hook-not-called" } else { "hook-called-twice" };
                return Err((key.into(), format!("`{m}` failed with {:?} but handle_error was called {} times: {:?}", err.0, hook.len(), hook)));
            }
            if &hook[0] != err {
                return Err(("hook-different-error".into(), format!("`{m}` returned {:?} but handle_error received {:?}", err, hook[0])));
            }
        }
    }
    Ok(())
}

fn obs(dev: &RigDev) -> (Vec<(u8, bool)>, Vec<(i16, Option<Vec<u8>>)>) {
    (
        dev.calls.iter().map(|c| (c.handler, c.form == Form::Query)).collect(),
        dev.errors.iter().map(|e| (e.get_code(), e.get_extended().map(|x| x.to_vec()))).collect(),
    )
}

pub fn check_case(tree: &'static Node<'static, RigDev>, ks: &[UKind], seq: &[usize], prefix: &str, cap_sweep: bool, stats: &mut (u64, u64)) -> Vec<(String, String, Value)> {
    let mut fails = vec![];
    let msg = message(ks, seq, prefix);
    let exp = expect(ks, seq);
    let mut dev = RigDev::new();
    plans(&mut dev);
    let mut out = Vec::new();
    stats.0 += 1;
    let case = |cap: i64| json!({"kind": "c05", "prefix": prefix, "seq": seq, "message": esc(&msg), "cap": cap});
    match guarded(|| run_vec(tree, &mut dev, &msg, &mut out)) {
        Err(p) => fails.push(("panic".to_string(), format!("`{}` panicked: {p}", esc(&msg)), case(-1))),
        Ok(r) => {
            let (calls, hook) = obs(&dev);
            let r = r.map_err(|e| (e.get_code(), e.get_extended().map(|x| x.to_vec())));
            if let Err((k, w)) = judge(&msg, &exp, &calls, r.clone(), &hook) {
                fails.push((k, w, case(-1)));
            }
            // formatter faults: every capacity below the full response makes exactly one write fail
            if cap_sweep && r.is_ok() && !out.is_empty() {
                // per-unit cumulative response ends
                let queries: Vec<usize> = seq.iter().cloned().filter(|&k| ks[k].query).collect();
                let _ = queries;
                for cap in 0..out.len().min(crate::capdispatch::MAX_CAP) {
                    stats.1 += 1;
                    let mut dev = RigDev::new();
                    plans(&mut dev);
                    match run_with_cap(cap, tree, &mut dev, &msg) {
                        Err(p) => fails.push(("panic".to_string(), format!("`{}` cap {cap} panicked: {p}", esc(&msg)), case(cap as i64))),
                        Ok(cr) => {
                            let (calls, hook) = obs(&dev);
                            // reference: the failing unit is the query whose response crosses `cap`
                            let (fi, sep_fails) = failing_unit(ks, seq, &out, cap);
                            let before: Vec<(u8, bool)> = seq[..fi.min(seq.len())].iter().map(|&k| (ks[k].handler.unwrap(), ks[k].query)).collect();
                            let own = if fi < seq.len() { Some((ks[seq[fi]].handler.unwrap(), ks[seq[fi]].query)) } else { None };
                            let e = Expect {
                                before,
                                failing: Some((fi, if fi >= seq.len() { Inv::Never } else if sep_fails { Inv::Never } else { Inv::Must }, own, -225, None)),
                            };
                            let r = cr.result.map_err(|c| (c, None));
                            if let Err((k, w)) = judge(&msg, &e, &calls, r, &hook) {
                                fails.push((format!("formatter-fault-{k}"), format!("capacity {cap}: {w}"), case(cap as i64)));
                            }
                        }
                    }
                }
            }
            // formatter capacity under a failing message: an earlier unit's error is not to be replaced by a
            // later buffer failure (e.g. of the terminator), and a buffer failure that strikes first wins
            if cap_sweep && r.is_err() {
                if let Some((fi, own, own_call, code, ext)) = exp.failing.clone() {
                    // reference bytes written by the successful queries in front of the failing unit
                    let plen = prefix_len(ks, &seq[..fi]);
                    // the failing unit itself may write a separator and part of its response before failing
                    let partial = if ks[seq[fi]].query { 4 } else { 0 };
                    for cap in 0..=(plen + partial + 2).min(crate::capdispatch::MAX_CAP) {
                        if cap >= plen && cap < plen + partial {
                            continue; // which failure strikes first inside the failing unit is not pinned
                        }
                        stats.1 += 1;
                        let mut dev = RigDev::new();
                        plans(&mut dev);
                        match run_with_cap(cap, tree, &mut dev, &msg) {
                            Err(p) => fails.push(("panic".to_string(), format!("`{}` cap {cap} panicked: {p}", esc(&msg)), case(cap as i64))),
                            Ok(cr) => {
                                let (calls, hook) = obs(&dev);
                                let e = if cap < plen {
                                    let (bi, sep_fails) = failing_unit(ks, &seq[..fi], &out, cap);
                                    let before: Vec<(u8, bool)> = seq[..bi].iter().map(|&k| (ks[k].handler.unwrap(), ks[k].query)).collect();
                                    let own = Some((ks[seq[bi]].handler.unwrap(), ks[seq[bi]].query));
                                    Expect { before, failing: Some((bi, if sep_fails { Inv::Never } else { Inv::Must }, own, -225, None)) }
                                } else {
                                    Expect { before: exp.before.clone(), failing: Some((fi, own, own_call, code, ext)) }
                                };
                                let want225 = cap < plen;
                                let r = cr.result.map_err(|c| (c, if want225 { None } else { hook.first().and_then(|h| if h.0 == c { h.1.clone() } else { None }) }));
                                if let Err((k, w)) = judge(&msg, &e, &calls, r, &hook) {
                                    fails.push((format!("failing-message-capacity-{k}"), format!("capacity {cap} (units before the failing one write {plen} bytes): {w}"), case(cap as i64)));
                                }
                            }
                        }
                    }
                }
            }
        }
    }
    fails
}

/// Bytes the successful query units of `seq` write (units joined by `;`, no terminator).
fn prefix_len(ks: &[UKind], seq: &[usize]) -> usize {
    let mut n = 0;
    let mut first = true;
    for &k in seq {
        if !ks[k].query {
            continue;
        }
        if !first {
            n += 1;
        }
        first = false;
        n += resp_text(ks[k].name).len();
    }
    n
}

fn resp_text(name: &str) -> &'static [u8] {
    match name {
        "query-ok-1" => b"7",
        "query-ok-hdr2" => b"HD \"s;t\",1",
        "query-ok-quoted" => b"\"a-long-segment-first\"\"x\"",
        "query-ok-long-header" => b"VOLTAGE 7",
        _ => b"",
    }
}

/// Which unit's write is the first to exceed `cap`, given the full response `out`.
/// Returns (unit index or seq.len() for the final NL, whether the failing write is the `;` separator).
fn failing_unit(ks: &[UKind], seq: &[usize], out: &[u8], cap: usize) -> (usize, bool) {
    // response layout: unit texts joined by ';' then NL. Reconstruct per-unit lengths from the known
    // reference texts of the query kinds.
    let mut pos = 0usize;
    let mut first = true;
    for (i, &k) in seq.iter().enumerate() {
        if !ks[k].query {
            continue;
        }
        let text: &[u8] = match ks[k].name {
            "query-ok-1" => b"7",
            "query-ok-hdr2" => b"HD \"s;t\",1",
            "query-ok-quoted" => b"\"a-long-segment-first\"\"x\"",
            "query-ok-long-header" => b"VOLTAGE 7",
            _ => b"",
        };
        if !first {
            // separator byte
            if pos + 1 > cap {
                return (i, true);
            }
            pos += 1;
        }
        first = false;
        if pos + text.len() > cap {
            return (i, false);
        }
        pos += text.len();
    }
    let _ = out;
    (seq.len(), false)
}

pub fn run(ctx: &'static Ctx) -> i32 {
    let ks = kinds();
    let k = ctx.tier.pick(4usize, 6usize);
    let nk = ks.len() as u64;
    // sequences are decoded from the index: lengths 1..=k in order, base-nk digits
    let mut offs: Vec<u64> = vec![0];
    for len in 1..=k {
        offs.push(offs[len - 1] + nk.pow(len as u32));
    }
    let nseq = offs[k];
    let seq_of = move |mut idx: u64| -> Vec<usize> {
        let mut len = 1;
        while idx >= nk.pow(len as u32) {
            idx -= nk.pow(len as u32);
            len += 1;
        }
        let mut s = vec![0usize; len];
        for j in (0..len).rev() {
            s[j] = (idx % nk) as usize;
            idx /= nk;
        }
        s
    };
    let ts: Vec<(&str, SharedTree, &str)> = trees().into_iter().map(|(n, s, p)| (n, SharedTree::of(&s), p)).collect();
    let total = nseq * ts.len() as u64;
    struct Acc {
        runs: u64,
        cap_runs: u64,
        failing_msgs: u64,
        outcomes: std::collections::HashSet<u64>,
    }
    let accs = par_sweep(
        ctx,
        total,
        SweepOpts {
            name: "C05 fault enumeration",
            chunk: 4096,
            hang_secs: 60,
        },
        || Acc {
            runs: 0,
            cap_runs: 0,
            failing_msgs: 0,
            outcomes: Default::default(),
        },
        |i, acc: &mut Acc| {
            let t = &ts[(i % ts.len() as u64) as usize];
            let seq = &seq_of(i / ts.len() as u64);
            // an empty unit is a fault only between two units (a trailing `;` is fine, a leading one is not pinned)
            if seq.iter().enumerate().any(|(j, &k)| ks[k].name == "empty-unit" && (j == 0 || j + 1 == seq.len())) {
                return;
            }
            let mut st = (0, 0);
            let fails = check_case(t.1.node(), &ks, seq, t.2, true, &mut st);
            acc.runs += st.0;
            acc.cap_runs += st.1;
            let e = expect(&ks, seq);
            if let Some(f) = &e.failing {
                acc.failing_msgs += 1;
                acc.outcomes.insert(fnv(0, &[f.0 as u8, seq[f.0] as u8]));
            }
            for (k, w, c) in fails {
                ctx.violation(i, &k, &format!("[tree {}] {}", t.0, w), json!({"tree": t.0, "case": c}));
            }
        },
        |i| json!({"kind": "c05-index", "index": i}),
    );
    let (mut runs, mut cap_runs, mut failing) = (0, 0, 0);
    let mut outcomes = std::collections::HashSet::new();
    for a in accs {
        runs += a.runs;
        cap_runs += a.cap_runs;
        failing += a.failing_msgs;
        outcomes.extend(a.outcomes);
    }
    let mut c = cov();
    c.insert("evaluations".into(), json!(runs + cap_runs));
    c.insert("distinct_nontrivial".into(), json!(failing + cap_runs));
    c.insert("distinct_failure_position_kind_pairs".into(), json!(outcomes.len()));
    c.insert("rule".into(), json!(format!("every message of 1..{k} units over 19 unit kinds (event ok, a query with a long response header and short data, query ok with 1 datum / header+2 data / a string with an embedded quote behind a long segment, handler-returned error from event / from query after a partial write, handler-returned errors with the unusual codes 0, -42 and +5 (with extended text), surplus parameter -108, missing -109, type -104, range -222, undefined header -113, lexical error in data, lexical error in header, an empty unit between two units, a query whose middle response element cannot be formatted) on a flat tree and on a nested tree reached through a default branch; reference executor: units left to right, first failing unit i => handler log is exactly units < i plus unit i's own handler iff the failure arises inside/after it, run returns exactly that error, handle_error receives exactly that error once, never on success. Formatter faults: for every successful message with output, every ArrayVec capacity 0..|R|-1 (one failing write each; the failing unit is computed from the reference response layout) must give -225 once with no later handler. Distinct non-trivial = failing messages + capacity-fault runs")));
    c.insert("exhaustive".into(), json!(true));
    c.insert("messages".into(), json!(runs));
    c.insert("formatter_fault_runs".into(), json!(cap_runs));
    c.insert("samples".into(), json!([
        {"message": "EV;QA?;FE;EV", "expect": "handlers EV,QA?,FE; returns -200; handle_error [-200]"},
        {"message": "OUT:QA?;QH?;ZZ", "expect": "handlers QA?,QH?; returns -113; handle_error [-113]"},
        {"message": "QA?;QH?", "capacity": 3, "expect": "QA? runs, QH? runs and fails at its header write; -225 once"}
    ]));
    ctx.finish(
        "fault_enumeration",
        c,
        vec![
            "lexical-error and data-type-error kinds accept any command-error number (which one is C04/C08/C14)".into(),
            "for a lexical error inside a unit's data the unit's own handler may or may not have been entered (one-token lookahead); no later handler may run".into(),
            "formatter faults are injected through ArrayVec capacities (see C11)".into(),
        ],
    )
}

pub fn replay(case: &Value) -> Result<String, String> {
    let ks = kinds();
    let tname = case["tree"].as_str().unwrap_or("flat");
    let (_, spec, prefix) = trees().into_iter().find(|t| t.0 == tname).unwrap_or_else(|| engine_failure("bad C05 tree"));
    let seq: Vec<usize> = case["case"]["seq"].as_array().unwrap_or_else(|| engine_failure("bad C05 replay")).iter().map(|v| v.as_u64().unwrap() as usize).collect();
    let mut st = (0, 0);
    let fails = check_case(spec.build(), &ks, &seq, prefix, true, &mut st);
    match fails.first() {
        Some((k, w, _)) => Err(format!("{k}: {w}")),
        None => Ok("conforms".into()),
    }
}
