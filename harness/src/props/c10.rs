//! C10 – responses are framed exactly: `;` between units, `,` between data, one final NL.
//! Every message of up to k successful units over a set of unit kinds x every message ending,
//! byte-exact comparison of the formatter buffer against reference framing.

use crate::core::*;
use crate::rig::*;
use arrayvec::ArrayVec;
use scpi::error::Error;
use scpi::tree::prelude::*;
use serde_json::{json, Value};

/// Unit kinds: (text, reference response text or None for "no output").
#[derive(Clone, Debug)]
pub struct Kind {
    pub text: &'static str,
    pub resp: Option<&'static str>,
    /// relative header that requires the previous unit to have been in the `BR` branch
    pub needs_br: bool,
    pub writes_nothing: bool,
}

pub const H_EV: u8 = 0;
pub const H_Q1: u8 = 1;
pub const H_Q3: u8 = 2;
pub const H_QH: u8 = 3;
pub const H_QHH: u8 = 4;
pub const H_QN: u8 = 5;
pub const H_BQ: u8 = 6;
pub const H_BE: u8 = 7;
pub const H_QF: u8 = 8;
pub const H_QE: u8 = 9;
pub const H_QL: u8 = 10;
pub const H_QS: u8 = 11;
pub const H_QM: u8 = 12;
pub const H_QNL: u8 = 13;
pub const H_QLQ: u8 = 14;
pub const H_QV: u8 = 15;
pub const H_QC: u8 = 16;
/// H_QW0..H_QW6: responses in which exactly one write (first header, second header, one of three
/// data, with and without headers) is longer than everything that follows it
pub const H_QW0: u8 = 17;
/// H_QP0..: units with one element that cannot be formatted (a non-ASCII string) among good ones
pub const H_QP0: u8 = 24;
/// H_QLA / H_QLV: a list as one data element between two others (ArrayVec not filled to capacity / Vec)
pub const H_QLA: u8 = 27;
pub const H_QLV: u8 = 28;
pub const LONGW: &[u8] = b"ABCDEFGHIJKLMNOPQRST";

pub static MANY: [Item; 300] = [Item::U8(7); 300];

pub fn framing_tree() -> TreeSpec {
    TreeSpec::root(vec![
        TreeSpec::leaf("EV", H_EV),
        TreeSpec::leaf("QONe", H_Q1),
        TreeSpec::leaf("QTHRee", H_Q3),
        TreeSpec::leaf("QHDR", H_QH),
        TreeSpec::leaf("QHH", H_QHH),
        TreeSpec::leaf("QNONe", H_QN),
        TreeSpec::leaf("QFLoat", H_QF),
        TreeSpec::leaf("QERR", H_QE),
        TreeSpec::leaf("QLONg", H_QL),
        TreeSpec::leaf("QSEMi", H_QS),
        TreeSpec::leaf("QMANy", H_QM),
        TreeSpec::leaf("QNL", H_QNL),
        TreeSpec::leaf("QLQ", H_QLQ),
        TreeSpec::leaf("QVOLt", H_QV),
        TreeSpec::leaf("QCALc", H_QC),
        TreeSpec::leaf("QLA", H_QLA),
        TreeSpec::leaf("QLV", H_QLV),
        TreeSpec::leaf("QPA", H_QP0),
        TreeSpec::leaf("QPB", H_QP0 + 1),
        TreeSpec::leaf("QPC", H_QP0 + 2),
        TreeSpec::leaf("QWA", H_QW0),
        TreeSpec::leaf("QWB", H_QW0 + 1),
        TreeSpec::leaf("QWC", H_QW0 + 2),
        TreeSpec::leaf("QWD", H_QW0 + 3),
        TreeSpec::leaf("QWE", H_QW0 + 4),
        TreeSpec::leaf("QWF", H_QW0 + 5),
        TreeSpec::leaf("QWG", H_QW0 + 6),
        TreeSpec::branch("BR", vec![TreeSpec::dleaf("BQ", H_BQ), TreeSpec::leaf("BE", H_BE)]),
        TreeSpec::leaf("*CQ", H_Q1),
        TreeSpec::leaf("*CE", H_EV),
    ])
}

pub fn framing_plans(dev: &mut RigDev) {
    dev.plan[H_EV as usize] = Plan::pull(0, 1);
    dev.plan[H_Q1 as usize] = Plan::resp(&[Item::I64(42)]);
    dev.plan[H_Q3 as usize] = Plan::resp(&[Item::Str(b"a;b,c"), Item::Block(b"x;y"), Item::U8(15)]);
    dev.plan[H_QH as usize] = Plan::resp(&[Item::Header(b"HDR"), Item::Bool(true), Item::I64(-7)]);
    dev.plan[H_QHH as usize] = Plan::resp(&[Item::Header(b"LVL1"), Item::Header(b"LVL2"), Item::Str(b"q\"q")]);
    dev.plan[H_QN as usize] = Plan::resp(&[]);
    dev.plan[H_BQ as usize] = Plan::resp(&[Item::Chr(b"ABC"), Item::Bool(false)]);
    dev.plan[H_BE as usize] = Plan::pull(0, 0);
    dev.plan[H_QF as usize] = Plan::resp(&[Item::I64(-25), Item::Expr(b"1,2:3"), Item::Utf8("h\u{e9}")]);
    static QE: std::sync::OnceLock<&'static [Item]> = std::sync::OnceLock::new();
    static QLQ: std::sync::OnceLock<&'static [Item]> = std::sync::OnceLock::new();
    dev.plan[H_QE as usize] = Plan::resp(QE.get_or_init(|| Box::leak(Box::new([Item::Err(Error::custom(-113, b"Undefined header")), Item::U8(0)]))));
    dev.plan[H_QS as usize] = Plan::resp(&[Item::Block(b"ab;")]);
    dev.plan[H_QM as usize] = Plan::resp(&MANY);
    dev.plan[H_QNL as usize] = Plan::resp(&[Item::I64(1), Item::Block(b"abc\n")]);
    dev.plan[H_QLQ as usize] = Plan::resp(QLQ.get_or_init(|| {
        Box::leak(Box::new([
            Item::Str(b"a-rather-long-segment-before-the-quote\"x"),
            Item::Err(Error::custom(-300, b"Probe \"A\" fault").extended(b"a-long-device-dependent-text\"q")),
        ]))
    }));
    dev.plan[H_QV as usize] = Plan::resp(&[Item::Header(b"VOLTAGE"), Item::I64(7)]);
    dev.plan[H_QW0 as usize] = Plan::resp(&[Item::Header(LONGW), Item::Header(b"B"), Item::I64(1), Item::I64(2), Item::I64(3)]);
    dev.plan[H_QW0 as usize + 1] = Plan::resp(&[Item::Header(b"A"), Item::Header(LONGW), Item::I64(1), Item::I64(2), Item::I64(3)]);
    dev.plan[H_QW0 as usize + 2] = Plan::resp(&[Item::Header(b"A"), Item::Header(b"B"), Item::Chr(LONGW), Item::I64(2), Item::I64(3)]);
    dev.plan[H_QW0 as usize + 3] = Plan::resp(&[Item::Header(b"A"), Item::Header(b"B"), Item::I64(1), Item::Chr(LONGW), Item::I64(3)]);
    dev.plan[H_QW0 as usize + 4] = Plan::resp(&[Item::Header(b"A"), Item::Header(b"B"), Item::I64(1), Item::I64(2), Item::Chr(LONGW)]);
    dev.plan[H_QW0 as usize + 5] = Plan::resp(&[Item::Chr(LONGW), Item::I64(2), Item::I64(3)]);
    dev.plan[H_QW0 as usize + 6] = Plan::resp(&[Item::I64(1), Item::Chr(LONGW), Item::I64(3)]);
    dev.plan[H_QP0 as usize] = Plan::resp(&[Item::I64(1), Item::Str(b"caf\xc3\xa9"), Item::I64(0)]);
    dev.plan[H_QP0 as usize + 1] = Plan::resp(&[Item::Str(b"\xff"), Item::I64(2)]);
    dev.plan[H_QP0 as usize + 2] = Plan::resp(&[Item::Header(b"HD"), Item::Str(b"\x80"), Item::I64(3), Item::I64(4)]);
    dev.plan[H_QLA as usize] = Plan::resp(&[Item::Header(b"LIST"), Item::ListAv(&[1, 2]), Item::I64(7), Item::ListAv(&[5])]);
    dev.plan[H_QLV as usize] = Plan::resp(&[Item::ListVec(&[3, 4, 5]), Item::I64(-1)]);
    dev.plan[H_QC as usize] = Plan::resp(&[Item::Header(b"CALCULATE"), Item::Header(b"X"), Item::I64(1)]);
    dev.plan[H_QL as usize] = Plan::resp(&[Item::I64(i64::MIN), Item::Str(b"\"\""), Item::Block(b"0123456789"), Item::F32(f32::NAN), Item::F64(f64::NEG_INFINITY)]);
}

/// reference text of the 300-element unit
pub fn many_text() -> &'static str {
    static T: std::sync::OnceLock<&'static str> = std::sync::OnceLock::new();
    T.get_or_init(|| {
        let v: Vec<&str> = (0..300).map(|_| "7").collect();
        Box::leak(v.join(",").into_boxed_str())
    })
}

pub fn kinds(all: bool) -> Vec<Kind> {
    let mut v = vec![
        Kind { text: "EV", resp: None, needs_br: false, writes_nothing: false },
        Kind { text: "QON?", resp: Some("42"), needs_br: false, writes_nothing: false },
        Kind { text: "QTHR?", resp: Some("\"a;b,c\",#13x;y,15"), needs_br: false, writes_nothing: false },
        Kind { text: "QHDR?", resp: Some("HDR 1,-7"), needs_br: false, writes_nothing: false },
        Kind { text: "qhh?", resp: Some("LVL1:LVL2 \"q\"\"q\""), needs_br: false, writes_nothing: false },
        Kind { text: ":BR:BQ?", resp: Some("ABC,0"), needs_br: false, writes_nothing: false },
        Kind { text: "BE", resp: None, needs_br: true, writes_nothing: false },
        // a common command in event form: contributes nothing, wherever it stands between queries
        Kind { text: "*CE", resp: None, needs_br: false, writes_nothing: false },
    ];
    if all {
        v.extend([
            Kind { text: "EV 1", resp: None, needs_br: false, writes_nothing: false },
            Kind { text: "*CQ?", resp: Some("42"), needs_br: false, writes_nothing: false },
            Kind { text: "BQ?", resp: Some("ABC,0"), needs_br: true, writes_nothing: false },
            Kind { text: ":BR?", resp: Some("ABC,0"), needs_br: false, writes_nothing: false },
            Kind { text: ":QFL?", resp: Some("-25,(1,2:3),#13h\u{e9}"), needs_br: false, writes_nothing: false },
            Kind { text: ":QERR?", resp: Some("-113,\"Undefined header\",0"), needs_br: false, writes_nothing: false },
            Kind { text: ":QSEM?", resp: Some("#13ab;"), needs_br: false, writes_nothing: false },
            Kind { text: ":QVOL?", resp: Some("VOLTAGE 7"), needs_br: false, writes_nothing: false },
            Kind { text: ":QCAL?", resp: Some("CALCULATE:X 1"), needs_br: false, writes_nothing: false },
            Kind { text: ":QLA?", resp: Some("LIST 1,2,7,5"), needs_br: false, writes_nothing: false },
            Kind { text: ":QNL?", resp: Some("1,#14abc\n"), needs_br: false, writes_nothing: false },
            Kind { text: ":QLON?", resp: Some("-9223372036854775808,\"\"\"\"\"\",#2100123456789,9.91E+37,-9.9E+37"), needs_br: false, writes_nothing: false },
        ]);
    }
    v
}

pub const ENDINGS: &[&str] = &["", "\n", " ", ";", "; ", " \n", ";\n", "\t"];
pub const SEPS: &[&str] = &[";", "; ", ";\t "];

/// A generated message: indices into kinds, separator and ending choice.
#[derive(Clone, Debug)]
pub struct GenMsg {
    pub text: Vec<u8>,
    pub expected: Vec<u8>,
    pub queries: usize,
}

/// Build the message for a kind sequence; None if the sequence is not well-formed
/// (a relative `BR` child not preceded by a unit at the BR level).
pub fn build(ks: &[Kind], seq: &[usize], sep: &str, ending: &str) -> Option<GenMsg> {
    let mut text = vec![];
    let mut parts: Vec<&str> = vec![];
    let mut in_br = false;
    for (i, &k) in seq.iter().enumerate() {
        let kind = &ks[k];
        if kind.needs_br && !in_br {
            return None;
        }
        if i > 0 {
            text.extend_from_slice(sep.as_bytes());
        }
        text.extend_from_slice(kind.text.as_bytes());
        if let Some(r) = kind.resp {
            parts.push(r);
        }
        // level bookkeeping: `:BR?` / BQ? / BE leave the level at BR; absolute-less root units
        // (first unit, or relative from root) stay at root; common commands do not move it.
        if kind.text.starts_with(":BR:") || kind.needs_br {
            in_br = true;
        } else if kind.text.starts_with('*') {
            // unchanged
        } else if kind.text.starts_with(':') {
            in_br = false;
        } else if in_br {
            // a relative root-level mnemonic while the level is BR would be undefined
            return None;
        }
    }
    text.extend_from_slice(ending.as_bytes());
    let mut expected = vec![];
    for (i, p) in parts.iter().enumerate() {
        if i > 0 {
            expected.push(b';');
        }
        expected.extend_from_slice(p.as_bytes());
    }
    if !parts.is_empty() {
        expected.push(b'\n');
    }
    Some(GenMsg {
        text,
        expected,
        queries: parts.len(),
    })
}

pub fn enumerate(ks: &[Kind], max_units: usize, all_seps: bool) -> Vec<GenMsg> {
    let mut out = vec![];
    let mut seqs: Vec<Vec<usize>> = vec![vec![]];
    for _ in 0..max_units {
        let mut next = vec![];
        for s in &seqs {
            for k in 0..ks.len() {
                let mut q = s.clone();
                q.push(k);
                next.push(q);
            }
        }
        for s in &next {
            let seps: &[&str] = if all_seps && s.len() > 1 { SEPS } else { &SEPS[..1] };
            for sep in seps {
                for e in ENDINGS {
                    if let Some(m) = build(ks, s, sep, e) {
                        out.push(m);
                    }
                }
            }
        }
        seqs = next;
    }
    // messages made only of empty units
    for e in ["", "\n"] {
        out.push(GenMsg {
            text: e.as_bytes().to_vec(),
            expected: vec![],
            queries: 0,
        });
    }
    // long units: 300 data elements in one unit (counter boundaries at 256), long strings with quotes
    for (t, e) in [
        (":QMAN?".to_string(), format!("{}\n", many_text())),
        ("QON?;:QMAN?;QON?".to_string(), format!("42;{};42\n", many_text())),
        (":QLQ?".to_string(), "\"a-rather-long-segment-before-the-quote\"\"x\",-300,\"Probe \"\"A\"\" fault;a-long-device-dependent-text\"\"q\"\n".to_string()),
        (":QNL?;EV".to_string(), "1,#14abc\n\n".to_string()),
        (":QLV?".to_string(), "3,4,5,-1\n".to_string()),
        ("QON?;:QLV?;:QLA?".to_string(), "42;3,4,5,-1;LIST 1,2,7,5\n".to_string()),
        (":QWA?".to_string(), "ABCDEFGHIJKLMNOPQRST:B 1,2,3\n".to_string()),
        (":QWB?".to_string(), "A:ABCDEFGHIJKLMNOPQRST 1,2,3\n".to_string()),
        (":QWC?".to_string(), "A:B ABCDEFGHIJKLMNOPQRST,2,3\n".to_string()),
        (":QWD?".to_string(), "A:B 1,ABCDEFGHIJKLMNOPQRST,3\n".to_string()),
        (":QWE?".to_string(), "A:B 1,2,ABCDEFGHIJKLMNOPQRST\n".to_string()),
        (":QWF?".to_string(), "ABCDEFGHIJKLMNOPQRST,2,3\n".to_string()),
        (":QWG?".to_string(), "1,ABCDEFGHIJKLMNOPQRST,3\n".to_string()),
        ("QON?;:QWB?;QON?".to_string(), "42;A:ABCDEFGHIJKLMNOPQRST 1,2,3;42\n".to_string()),
        ("QON?;:QWD?;:QWG?".to_string(), "42;A:B 1,ABCDEFGHIJKLMNOPQRST,3;1,ABCDEFGHIJKLMNOPQRST,3\n".to_string()),
    ] {
        out.push(GenMsg { text: t.into_bytes(), expected: e.into_bytes(), queries: 1 });
    }
    // the query that writes nothing, only together with events (framing of an empty response
    // unit is not pinned by the property)
    for t in ["QNON?", "EV;QNON?", "QNON?;EV", "EV;QNON?;EV\n"] {
        out.push(GenMsg {
            text: t.as_bytes().to_vec(),
            expected: vec![],
            queries: 0,
        });
    }
    out
}

pub fn check_msg(tree: &Node<'static, RigDev>, dev: &mut RigDev, m: &GenMsg) -> Result<(), (String, String)> {
    // growable buffer
    let mut out: Vec<u8> = Vec::new();
    let r = guarded(|| run_vec(tree, dev, &m.text, &mut out)).map_err(|p| ("panic".to_string(), format!("`{}` panicked: {p}", esc(&m.text))))?;
    if let Err(e) = r {
        return Err(("unexpected-error".into(), format!("well-formed message `{}` failed with {}", esc(&m.text), e.get_code())));
    }
    if out != m.expected {
        let key = if out.len() + 1 == m.expected.len() && m.expected.starts_with(&out) {
            "missing-terminator"
        } else if out.iter().filter(|c| **c == b'\n').count() > 1 {
            "duplicate-terminator"
        } else {
            "framing"
        };
        return Err((key.into(), format!("`{}` left `{}` in the buffer, reference framing is `{}`", esc(&m.text), esc(&out), esc(&m.expected))));
    }
    // fixed buffer
    let mut arr: ArrayVec<u8, 1024> = ArrayVec::new();
    dev.reset_obs(&m.text);
    let mut ctx = Context::default();
    let r = guarded(|| tree.run(&m.text, dev, &mut ctx, &mut arr)).map_err(|p| ("panic".to_string(), format!("`{}` panicked (ArrayVec): {p}", esc(&m.text))))?;
    if r.is_err() || arr.as_slice() != &m.expected[..] {
        return Err(("framing-arrayvec".into(), format!("`{}` with ArrayVec<u8,1024>: {:?} `{}`, reference `{}`", esc(&m.text), r.err().map(|e| e.get_code()), esc(&arr), esc(&m.expected))));
    }
    Ok(())
}

/// Index space of all unit sequences of 1..=max_units kinds x separators x endings (decoded on the
/// fly so that deep bounds need no memory).
pub struct Space {
    pub nk: u64,
    pub max_units: usize,
    /// offs[len] = number of indices used by sequences shorter than or equal to len
    pub offs: Vec<u64>,
}

impl Space {
    pub fn new(nk: usize, max_units: usize) -> Space {
        let nk = nk as u64;
        let mut offs = vec![0u64];
        for len in 1..=max_units {
            let nsep = if len > 1 { SEPS.len() as u64 } else { 1 };
            offs.push(offs[len - 1] + nk.pow(len as u32) * nsep * ENDINGS.len() as u64);
        }
        Space { nk, max_units, offs }
    }
    pub fn total(&self) -> u64 {
        self.offs[self.max_units]
    }
    pub fn decode(&self, idx: u64) -> (Vec<usize>, &'static str, &'static str) {
        let mut len = 1;
        while idx >= self.offs[len] {
            len += 1;
        }
        let mut x = idx - self.offs[len - 1];
        let e = ENDINGS[(x % ENDINGS.len() as u64) as usize];
        x /= ENDINGS.len() as u64;
        let nsep = if len > 1 { SEPS.len() as u64 } else { 1 };
        let sep = SEPS[(x % nsep) as usize];
        x /= nsep;
        let mut seq = vec![0usize; len];
        for j in (0..len).rev() {
            seq[j] = (x % self.nk) as usize;
            x /= self.nk;
        }
        (seq, sep, e)
    }
}

/// Units holding an element the formatter cannot write. Whether such a message fails is not this
/// property's business; but if it is reported as executed successfully, its framing must still be
/// exact: no empty element, no doubled or dangling separator.
pub fn poison_messages() -> Vec<&'static str> {
    vec![":QPA?", ":QPB?", ":QPC?", "QON?;:QPA?;QON?", "QON?;:QPB?", ":QPC?;QON?", ":QPA?;:QPB?;:QPC?"]
}

pub fn check_poison(tree: &Node<'static, RigDev>, text: &[u8]) -> Result<bool, (String, String)> {
    let mut dev = RigDev::new();
    framing_plans(&mut dev);
    let mut out: Vec<u8> = Vec::new();
    let r = guarded(|| run_vec(tree, &mut dev, text, &mut out)).map_err(|p| ("panic".to_string(), format!("`{}` panicked: {p}", esc(text))))?;
    if r.is_err() {
        return Ok(false);
    }
    // executed "successfully": judge the framing structurally (strings are quoted, so every
    // separator outside quotes must have an element on both sides)
    let mut prev_sep = true; // start of message counts as "just after a separator"
    let mut in_str = false;
    let mut bad = out.last() != Some(&b'\n');
    for &c in &out {
        if in_str {
            if c == b'"' {
                in_str = false;
            }
            prev_sep = false;
            continue;
        }
        match c {
            b'"' => {
                in_str = true;
                prev_sep = false;
            }
            b',' | b';' | b'\n' => {
                if prev_sep {
                    bad = true;
                }
                prev_sep = true;
            }
            b' ' => {}
            _ => prev_sep = false,
        }
    }
    if bad {
        return Err(("framing-empty-element".into(), format!("`{}` is reported as executed successfully but left `{}` in the buffer: an element is missing between two separators", esc(text), esc(&out))));
    }
    Ok(true)
}

pub fn run(ctx: &'static Ctx) -> i32 {
    let spec = framing_tree();
    let shared = SharedTree::of(&spec);
    let max_units = ctx.tier.pick(3, 6);
    let ks = kinds(true);
    let space = Space::new(ks.len(), max_units);
    // the directed extra messages (long units, empty messages, the query that writes nothing)
    let extras = enumerate(&ks, 0, true);
    let total = space.total() + extras.len() as u64;
    let msg_at = |i: u64| -> Option<GenMsg> {
        if i < space.total() {
            let (seq, sep, e) = space.decode(i);
            build(&ks, &seq, sep, e)
        } else {
            Some(extras[(i - space.total()) as usize].clone())
        }
    };
    struct Acc {
        built: u64,
        with_output: u64,
        outcomes: std::collections::HashSet<u64>,
        samples: Vec<Value>,
    }
    let accs = par_sweep(
        ctx,
        total,
        SweepOpts {
            name: "C10 messages",
            chunk: 4096,
            hang_secs: 30,
        },
        || Acc {
            built: 0,
            with_output: 0,
            outcomes: Default::default(),
            samples: vec![],
        },
        |i, acc: &mut Acc| {
            let m = match msg_at(i) {
                Some(m) => m,
                None => return,
            };
            let m = &m;
            acc.built += 1;
            let tree = shared.node();
            let mut dev = RigDev::new();
            framing_plans(&mut dev);
            if m.queries > 0 {
                acc.with_output += 1;
            }
            if acc.outcomes.len() < 200_000 {
                acc.outcomes.insert(fnv(0, &m.expected));
            }
            if acc.samples.len() < 2 && m.queries >= 2 && i % 1013 == 0 {
                acc.samples.push(json!({"message": esc(&m.text), "reference_response": esc(&m.expected)}));
            }
            if let Err((key, what)) = check_msg(tree, &mut dev, m) {
                ctx.violation(i, &key, &what, json!({"kind": "framing", "message": esc(&m.text), "expected": esc(&m.expected)}));
            }
        },
        |i| match msg_at(i) {
            Some(m) => json!({"kind": "framing", "message": esc(&m.text), "expected": esc(&m.expected)}),
            None => json!({"kind": "framing", "message": "", "expected": ""}),
        },
    );
    let mut poison_ok = 0u64;
    for (j, t) in poison_messages().iter().enumerate() {
        match check_poison(shared.node(), t.as_bytes()) {
            Ok(true) => poison_ok += 1,
            Ok(false) => {}
            Err((k, w)) => {
                ctx.violation(total + j as u64, &k, &w, json!({"kind": "poison", "message": t}));
            }
        }
    }
    let mut with_output = 0;
    let mut built = 0u64;
    let mut outcomes = std::collections::HashSet::new();
    let mut samples = vec![json!({"message": "QON?;EV;QHDR?;", "reference_response": "42;HDR 1,-7\\n"})];
    for a in accs {
        with_output += a.with_output;
        built += a.built;
        outcomes.extend(a.outcomes);
        for s in a.samples {
            if samples.len() < 8 {
                samples.push(s);
            }
        }
    }
    let mut c = cov();
    c.insert("evaluations".into(), json!(built * 2));
    c.insert("messages".into(), json!(built));
    c.insert("distinct_nontrivial".into(), json!(with_output));
    c.insert("distinct_expected_responses_at_least".into(), json!(outcomes.len()));
    c.insert("rule".into(), json!(format!("every sequence of 1..{max_units} units over {} unit kinds (event with/without parameter, queries returning 1/2/3/5 data of rotating types incl. strings and blocks containing `;` `,`, response headers of one and two levels, relative and common headers) x unit separators {{`;`, `; `, `;\\t `}} x endings {{none, NL, blank, `;`, `; `, ` NL`, `;NL`, TAB}}, all successful; run on Vec<u8> and ArrayVec<u8,1024>; buffer compared byte-for-byte with reference framing (units joined by `;`, header SP data joined by `,`, exactly one NL iff any output). Distinct non-trivial = messages with at least one query", ks.len())));
    c.insert("exhaustive".into(), json!(true));
    c.insert("unformattable_element_messages".into(), json!({"run": poison_messages().len(), "reported_successful": poison_ok}));
    c.insert("samples".into(), Value::Array(samples));
    ctx.finish(
        "exploration",
        c,
        vec![
            "expected unit texts are written by hand per unit kind (not produced by the formatter)".into(),
            "a query that writes nothing is only combined with events (the property does not say how an empty response unit is framed)".into(),
        ],
    )
}

pub fn replay(case: &Value) -> Result<String, String> {
    let spec = framing_tree();
    let tree = spec.build();
    if case["kind"] == "poison" {
        return match check_poison(tree, case["message"].as_str().unwrap_or("").as_bytes()) {
            Ok(s) => Ok(format!("reported successful: {s}")),
            Err((k, w)) => Err(format!("{k}: {w}")),
        };
    }
    let mut dev = RigDev::new();
    framing_plans(&mut dev);
    let m = GenMsg {
        text: unesc(case["message"].as_str().unwrap_or("")),
        expected: unesc(case["expected"].as_str().unwrap_or("")),
        queries: 0,
    };
    check_msg(tree, &mut dev, &m).map(|_| "framing ok".to_string()).map_err(|(k, w)| format!("{k}: {w}"))
}
