//! C14 – every error code maps to the ESR bit of its IEEE 488.2 class.
//! Exhaustive over all 65536 error numbers, plus a table of faults the library itself raises.

use crate::core::*;
use crate::dev488::*;
use crate::scpimodel::esr_bit_of;
use scpi::error::{Error, ErrorCode};
use serde_json::{json, Value};

#[derive(Clone, Copy, Debug, PartialEq)]
enum Class {
    Command,   // -100..-199
    Execution, // -200..-299
}

/// Faults raised by lexing, dispatch and conversion, with the class the property assigns.
fn fault_table() -> Vec<(&'static str, Class)> {
    use Class::*;
    vec![
        // syntax faults
        ("EVT \"abc", Command),
        ("EVT 'abc", Command),
        ("EVT #", Command),
        ("EVT #1", Command),
        ("EVT #15ab", Command),
        ("EVT #0abc", Command),
        ("EVT #Hxyz", Command),
        ("EVT #Z1", Command),
        ("EVT (1,2", Command),
        ("EVT (\"a\")", Command),
        ("EVT 1.2.3", Command),
        ("EVT 1e", Command),
        ("EVT -", Command),
        ("EVT \\x80", Command),
        ("EVT\\x80", Command),
        ("EVT ABCDEFGHIJKLM", Command),
        ("EVT 1 ABCDEFGHIJKLM", Command),
        ("ABCDEFGHIJKLM", Command),
        ("EVT 1 2", Command),
        ("EVT \"a\" \"b\"", Command),
        ("EVT #H1 X", Command),
        ("EVT,1", Command),
        ("EVT 1,,2", Command),
        ("EVT 1,", Command),
        ("::EVT", Command),
        ("EVT:", Command),
        ("EVT:1", Command),
        ("1EVT", Command),
        ("EVT?1", Command),
        ("VAL??", Command),
        ("*ESE:X 1", Command),
        ("EVT\nEVT", Command),
        ("@", Command),
        ("EVT @", Command),
        // an expression glued to a header (leaf and branch)
        ("EVT(1)", Command),
        ("SYST(1)", Command),
        ("SYST:ERR(1:2)", Command),
        ("STAT:OPER(@1)", Command),
        ("*CLS(1)", Command),
        // header faults
        ("FOO", Command),
        ("SYST:FOO?", Command),
        ("SYST:ERR:NEXT:X?", Command),
        ("*FOO", Command),
        ("EVT:FOO", Command),
        ("STAT", Command),
        // arity faults
        ("EVT 1,2", Command),
        ("U8", Command),
        ("U8 1,2", Command),
        ("*CLS 1", Command),
        ("*ESR? 1", Command),
        // data-type faults
        ("U8 \"1\"", Command),
        ("U8 #15hello", Command),
        ("U8 (1)", Command),
        ("U8 ABC", Command),
        ("U8 1V", Command),
        ("U8 1 V", Command),
        ("*ESE ON", Command),
        ("STAT:OPER:ENAB \"x\"", Command),
        // value faults
        ("U8 256", Execution),
        ("U8 -1", Execution),
        ("U8 1e3", Execution),
        ("U8 #H100", Execution),
        ("U8 255.6", Execution),
        ("*ESE 300", Execution),
        ("*SRE -5", Execution),
        ("STAT:OPER:ENAB 65536", Execution),
        ("STAT:QUES:PTR -1", Execution),
        ("RAISE 40000", Execution),
    ]
}

/// SCPI-99 vol. 2 chapter 21.8 error/event numbers (written from the standard, not from the library).
const STANDARD_CODES: &[i16] = &[
    0, -100, -101, -102, -103, -104, -105, -108, -109, -110, -111, -112, -113, -114, -120, -121, -123, -124, -128, -130, -131, -134, -138, -140, -141, -144, -148, -150, -151, -158, -160, -161, -168,
    -170, -171, -178, -180, -181, -183, -184, -200, -201, -202, -203, -210, -211, -212, -213, -214, -215, -220, -221, -222, -223, -224, -225, -226, -230, -231, -232, -233, -240, -241, -250, -251,
    -252, -253, -254, -255, -256, -257, -258, -260, -261, -270, -271, -272, -273, -274, -275, -276, -277, -278, -280, -281, -282, -283, -284, -285, -286, -290, -291, -292, -293, -294, -300, -310,
    -311, -312, -313, -314, -315, -320, -321, -330, -340, -350, -360, -361, -362, -363, -365, -400, -410, -420, -430, -440, -500, -600, -700, -800,
];

/// A faulty element as first, second and third parameter of a handler that converts every
/// parameter to u8: the class of the error must be the one the fault has, wherever it stands.
fn positional_faults() -> (u64, Vec<(u64, String)>) {
    use crate::rig::{run_vec, Plan, RigDev, SharedTree, TreeSpec};
    let spec = TreeSpec::root(vec![TreeSpec::leaf("A", 0)]);
    let shared = SharedTree::of(&spec);
    let faults: &[(&str, Class)] = &[
        ("256", Class::Execution),
        ("-1", Class::Execution),
        ("1e3", Class::Execution),
        ("#H100", Class::Execution),
        ("255.6", Class::Execution),
        ("#H1FFFFFFFFFFFFFFFFF", Class::Execution),
        ("#Q7777777777777777777777", Class::Execution),
        ("\"1\"", Class::Command),
        ("#15hello", Class::Command),
        ("(1)", Class::Command),
        ("ABC", Class::Command),
        ("1V", Class::Command),
        ("#Hxyz", Class::Command),
        ("1.2.3", Class::Command),
    ];
    let mut n = 0u64;
    let mut bad = vec![];
    for (text, class) in faults {
        for pos in 0..3usize {
            n += 1;
            let mut m = b"A ".to_vec();
            for i in 0..=pos {
                if i > 0 {
                    m.push(b',');
                }
                if i == pos {
                    m.extend_from_slice(text.as_bytes());
                } else {
                    m.extend_from_slice(b"7");
                }
            }
            let mut dev = RigDev::new();
            dev.plan[0] = Plan { req: (pos + 1) as u8, typed_u8: true, ..Plan::NOP };
            let mut out = Vec::new();
            match guarded(|| run_vec(shared.node(), &mut dev, &m, &mut out)) {
                Ok(Err(e)) if class_of(e.get_code()) == Some(*class) => {}
                Ok(r) => bad.push((n, format!("`{}` (fault in parameter {}) gives {:?}; expected a {:?} error", esc(&m), pos + 1, r.err().map(|e| e.get_code()), class))),
                Err(p) => bad.push((n, format!("`{}` panicked: {p}", esc(&m)))),
            }
        }
    }
    (n, bad)
}

/// (cases evaluated, violations as (index, text))
fn quantity_type_faults() -> (u64, Vec<(u64, String)>) {
    use scpi::parser::suffix::{Amplitude, Db};
    use scpi::units as q32;
    use scpi::units::uom::si::f64 as q64;
    let mut n = 0u64;
    let mut bad = vec![];
    macro_rules! dt {
        ($t:ty, $name:expr) => {
            for t in crate::props::c18::non_numeric_tokens().into_iter() {
                n += 1;
                if let Err(e) = <$t>::try_from(t) {
                    if class_of(e.get_code()) != Some(Class::Command) {
                        bad.push((n, format!("{:?} offered to {} raises {}; a data-type fault is a command error", t, $name, e.get_code())));
                    }
                }
            }
        };
    }
    dt!(q32::ElectricPotential, "ElectricPotential<f32>");
    dt!(q64::ElectricPotential, "ElectricPotential<f64>");
    dt!(q32::Frequency, "Frequency<f32>");
    dt!(q32::Time, "Time<f32>");
    dt!(q64::Power, "Power<f64>");
    dt!(q32::ThermodynamicTemperature, "ThermodynamicTemperature<f32>");
    dt!(q32::Ratio, "Ratio<f32>");
    dt!(Amplitude<q32::ElectricPotential>, "Amplitude<ElectricPotential>");
    dt!(Db<f32, q32::ElectricPotential>, "Db<f32,ElectricPotential>");
    dt!(Db<f32, q32::ElectricCurrent>, "Db<f32,ElectricCurrent>");
    dt!(Db<f32, q32::Power>, "Db<f32,Power>");
    dt!(Db<f32, q32::Ratio>, "Db<f32,Ratio>");
    (n, bad)
}

fn class_of(code: i16) -> Option<Class> {
    match code {
        -199..=-100 => Some(Class::Command),
        -299..=-200 => Some(Class::Execution),
        _ => None,
    }
}

pub fn run(ctx: &'static Ctx) -> i32 {
    let mut evals = 0u64;
    let mut std_variants = 0u64;
    let mut distinct_masks = std::collections::BTreeSet::new();
    let mut samples = Samples::new(10);
    let mut boundaries = 0u64;
    for n in i16::MIN..=i16::MAX {
        evals += 1;
        let exp = esr_bit_of(n);
        let custom = Error::custom(n, b"Custom");
        let got = custom.esr_mask();
        distinct_masks.insert(got);
        if custom.get_code() != n {
            ctx.violation(evals, "custom-code", &format!("Error::custom({n}).get_code() = {}", custom.get_code()), json!({"kind": "code", "n": n}));
        }
        if got != exp {
            ctx.violation(
                evals,
                "esr-class",
                &format!("Error::custom({n}).esr_mask() = {got:#04x}, class table says {exp:#04x}"),
                json!({"kind": "code", "n": n}),
            );
        }
        let ec = ErrorCode::Custom(n, b"x");
        if ec.esr_mask() != exp {
            ctx.violation(evals, "esr-class", &format!("ErrorCode::Custom({n}).esr_mask() = {:#04x}, class table says {exp:#04x}", ec.esr_mask()), json!({"kind": "code", "n": n}));
        }
        if n % 100 == 0 || (n as i32 + 1) % 100 == 0 {
            boundaries += 1;
            if samples.items.len() < 6 && n < 0 && n > -1000 && n % 100 == 0 {
                samples.push(json!({"code": n, "esr_mask": got, "class_table": exp}));
            }
        }
        if let Some(e) = ErrorCode::get_error(n) {
            std_variants += 1;
            let err = Error::new(e);
            if e.get_code() != n || err.get_code() != n {
                ctx.violation(
                    evals,
                    "lookup-roundtrip",
                    &format!("ErrorCode::get_error({n}) yields an error reporting code {}", e.get_code()),
                    json!({"kind": "code", "n": n}),
                );
            }
            if err.esr_mask() != exp {
                ctx.violation(
                    evals,
                    "esr-class-std",
                    &format!("standard error {n} has esr_mask {:#04x}, class table says {exp:#04x}", err.esr_mask()),
                    json!({"kind": "code", "n": n}),
                );
            }
            if e.get_message().is_empty() || !e.get_message().is_ascii() || e.get_message().contains(&b'"') {
                ctx.violation(evals, "message-text", &format!("standard error {n} has unusable message `{}`", esc(e.get_message())), json!({"kind": "code", "n": n}));
            }
        }
    }
    // the library's own faults
    let mut fault_cases = 0u64;
    for (i, (m, class)) in fault_table().iter().enumerate() {
        fault_cases += 1;
        let m = unesc(m);
        let m = &m;
        let mut dev: ScpiDev<Vec<Error>> = ScpiDev::new();
        let r = guarded(|| run_msg(&mut dev, m, false));
        let (res, _) = match r {
            Ok(x) => x,
            Err(p) => {
                ctx.violation(70000 + i as u64, "panic", &format!("`{}` panicked: {p}", esc(m)), json!({"kind": "fault", "msg": esc(m)}));
                continue;
            }
        };
        match res {
            Ok(()) => {
                ctx.violation(70000 + i as u64, "fault-accepted", &format!("faulty message `{}` was accepted", esc(m)), json!({"kind": "fault", "msg": esc(m)}));
            }
            Err(e) => {
                if class_of(e.get_code()) != Some(*class) {
                    ctx.violation(
                        70000 + i as u64,
                        "fault-class",
                        &format!("`{}` raised {} which is not a {:?}-error", esc(m), e.get_code(), class),
                        json!({"kind": "fault", "msg": esc(m)}),
                    );
                }
                // and the device's ESR got exactly the class bit
                let want = if *class == Class::Command { 0x20 } else { 0x10 };
                if dev.esr != want {
                    ctx.violation(70000 + i as u64, "fault-esr", &format!("`{}` set ESR={:#04x}, expected {want:#04x}", esc(m), dev.esr), json!({"kind": "fault", "msg": esc(m)}));
                }
                if samples.items.len() < 10 && i % 9 == 0 {
                    samples.push(json!({"message": esc(m), "raised": e.get_code(), "class": format!("{:?}", class)}));
                }
            }
        }
    }
    // value faults raised by conversions outside the message path: a negative channel number
    // converted to an unsigned index (at every dimension) is out of range, not a syntax fault
    {
        use scpi::parser::expression::channel_list::{ChannelList, Token as CTok};
        let specs: &[&[u8]] = &[b"@-1", b"@-1!2", b"@1!-2", b"@-1!2!3", b"@1!-2!3", b"@1!2!-3"];
        for (i, sp) in specs.iter().enumerate() {
            fault_cases += 1;
            let tok = ChannelList::new(sp).and_then(|mut l| l.next()).and_then(|r| r.ok());
            let code: Option<i16> = match tok {
                Some(CTok::ChannelSpec(c)) => match c.dimension() {
                    1 => usize::try_from(c).err().map(|e| e.get_code()),
                    2 => <(usize, usize)>::try_from(c).err().map(|e| e.get_code()),
                    _ => <(usize, usize, usize)>::try_from(c).err().map(|e| e.get_code()),
                },
                _ => None,
            };
            if code.and_then(class_of) != Some(Class::Execution) {
                ctx.violation(80000 + i as u64, "conversion-fault-class", &format!("channel spec `{}` converted to unsigned indices gives {:?}; a negative index is a value fault (execution-error class)", esc(sp), code), json!({"kind": "spec", "spec": esc(sp)}));
            }
        }
    }
    // data-type faults raised by the unit-quantity conversions (outside the message path): a
    // non-numeric element offered to a quantity, amplitude or decibel type is a command error
    let (n_qt, bad_qt) = quantity_type_faults();
    fault_cases += n_qt;
    for (j, w) in bad_qt {
        ctx.violation(85000 + j, "conversion-fault-class", &w, json!({"kind": "quantity-type", "index": j}));
    }
    // syntax faults inside list expressions are command errors too
    {
        use scpi::parser::expression::channel_list::ChannelList;
        use scpi::parser::expression::numeric_list::NumericList;
        let mut j = 0u64;
        for body in [&b"1,,2"[..], b",1", b"1:2:3", b"1,a", b"1 2", b"1,2,,", b"a", b"1:a", b"1,2:3,x"] {
            j += 1;
            fault_cases += 1;
            let code = guarded(|| NumericList::new(body).find_map(|r| r.err()).map(|e| e.get_code()));
            match code {
                Ok(Some(c)) if class_of(c) == Some(Class::Command) => {}
                Ok(Some(c)) => {
                    ctx.violation(88000 + j, "list-fault-class", &format!("numeric list `{}`: the syntax fault is reported as {c}, not a command error", esc(body)), json!({"kind": "list", "which": "numeric", "body": esc(body)}));
                }
                _ => {} // whether the fault is reported at all is C19's question
            }
        }
        for body in [&b"@1,,2"[..], b"@,1", b"@1:2:3", b"@1,a", b"@1!2,,3", b"@1!2:3!4:5", b"@a", b"@1:a"] {
            j += 1;
            fault_cases += 1;
            let code = guarded(|| ChannelList::new(body).and_then(|l| l.into_iter().find_map(|r| r.err())).map(|e| e.get_code()));
            match code {
                Ok(Some(c)) if class_of(c) == Some(Class::Command) => {}
                Ok(Some(c)) => {
                    ctx.violation(88000 + j, "list-fault-class", &format!("channel list `{}`: the syntax fault is reported as {c}, not a command error", esc(body)), json!({"kind": "list", "which": "channel", "body": esc(body)}));
                }
                _ => {}
            }
        }
    }
    // the class of a parameter fault does not depend on the position of the parameter
    let (n_pos, bad_pos) = positional_faults();
    fault_cases += n_pos;
    for (j, w) in bad_pos {
        ctx.violation(86000 + j, "fault-class-by-position", &w, json!({"kind": "positional", "index": j}));
    }
    // response buffer exhausted: a value fault (execution-error class)
    {
        use crate::rig::{RigDev, SharedTree};
        let spec = crate::props::c10::framing_tree();
        let shared = SharedTree::of(&spec);
        let mut j = 0u64;
        for m in [&b"QON?"[..], b"QON?;QON?", b"QTHR?", b":QVOL?", b"QHDR?;QON?", b":QCAL?;qhh?", b"QON?;EV;:QERR?"] {
            // the full response length from a growable buffer
            let mut dev = RigDev::new();
            crate::props::c10::framing_plans(&mut dev);
            let mut full = Vec::new();
            let _ = crate::rig::run_vec(shared.node(), &mut dev, m, &mut full);
            for cap in 0..full.len() {
                j += 1;
                fault_cases += 1;
                let mut dev = RigDev::new();
                crate::props::c10::framing_plans(&mut dev);
                match crate::props::c11::run_with_cap(cap, shared.node(), &mut dev, m) {
                    Ok(cr) => match cr.result {
                        Err(code) if class_of(code) == Some(Class::Execution) => {}
                        Ok(()) => {} // whether the message must fail at all is C11's question, not this one
                        other => {
                            ctx.violation(87000 + j, "buffer-fault-class", &format!("`{}` with a {cap}-byte response buffer gives {:?}; response buffer exhaustion is an execution error", esc(m), other), json!({"kind": "buffer", "msg": esc(m), "cap": cap}));
                        }
                    },
                    Err(p) => {
                        ctx.violation(87000 + j, "panic", &format!("`{}` with a {cap}-byte buffer panicked: {p}", esc(m)), json!({"kind": "buffer", "msg": esc(m), "cap": cap}));
                    }
                }
            }
        }
    }
    // an independently written list of SCPI-99 (vol. 2, 21.8) standard numbers: each must be known
    // to the lookup and report itself
    for &n in STANDARD_CODES {
        fault_cases += 1;
        match ErrorCode::get_error(n) {
            Some(e) if e.get_code() == n && Error::new(e).get_code() == n => {}
            Some(e) => { ctx.violation(90000 + (-(n as i32)) as u64, "lookup-roundtrip", &format!("ErrorCode::get_error({n}) yields an error reporting code {}", e.get_code()), json!({"kind": "code", "n": n})); }
            None => { ctx.violation(90000 + (-(n as i32)) as u64, "lookup-missing", &format!("ErrorCode::get_error({n}) knows no error although {n} is a SCPI-99 standard error number"), json!({"kind": "std-code", "n": n})); }
        }
    }
    let mut c = cov();
    c.insert("evaluations".into(), json!(evals + fault_cases));
    c.insert("distinct_nontrivial".into(), json!(std_variants + boundaries + fault_cases));
    c.insert("rule".into(), json!("all 65536 i16 error numbers through Error::custom / ErrorCode::Custom (esr_mask vs an independently written class table) and, where ErrorCode::get_error(n) is defined, the standard variant (code round trip, esr_mask, non-empty ASCII message); plus a table of faulty messages (syntax, header, arity, data type -> command error; value faults -> execution error) run through the real parser on the documented device, checking the class of the raised error and the ESR bit that ends up set; non-numeric elements (string, block, expression, non-decimal, character data incl. the special-value mnemonics) offered to 12 quantity / Amplitude / Db types -> command error; an independently written list of the SCPI-99 21.8 standard numbers, each of which the lookup must know and report; distinct non-trivial = standard variants + century-boundary numbers + fault-table messages"));
    c.insert("exhaustive".into(), json!(true));
    c.insert("standard_variants".into(), json!(std_variants));
    c.insert("distinct_masks_observed".into(), json!(distinct_masks.len()));
    c.insert("fault_table_messages".into(), json!(fault_cases));
    c.insert("samples".into(), Value::Array(samples.items));
    ctx.finish(
        "exploration",
        c,
        vec!["the class table is written from IEEE 488.2 11.5.1 / SCPI-99 21.8.2 independently of the implementation's range match".into()],
    )
}

pub fn replay(case: &Value) -> Result<String, String> {
    match case["kind"].as_str() {
        Some("code") => {
            let n = case["n"].as_i64().unwrap() as i16;
            let got = Error::custom(n, b"Custom").esr_mask();
            let exp = esr_bit_of(n);
            let mut bad = got != exp;
            if let Some(e) = ErrorCode::get_error(n) {
                bad |= e.get_code() != n || Error::new(e).esr_mask() != exp;
            }
            if bad {
                Err(format!("error number {n}: esr_mask {got:#04x}, class table {exp:#04x} (or lookup round trip broken)"))
            } else {
                Ok(format!("{n} -> {got:#04x}"))
            }
        }
        Some("fault") => {
            let m = unesc(case["msg"].as_str().unwrap());
            let want = fault_table().into_iter().find(|(t, _)| unesc(t) == m).map(|x| x.1);
            let mut dev: ScpiDev<Vec<Error>> = ScpiDev::new();
            let (res, _) = run_msg(&mut dev, &m, false);
            match (res, want) {
                (Err(e), Some(c)) if class_of(e.get_code()) == Some(c) => Ok(format!("{}", e.get_code())),
                (r, _) => Err(format!("`{}` -> {:?}", esc(&m), r.err().map(|e| e.get_code()))),
            }
        }
        Some("spec") => {
            use scpi::parser::expression::channel_list::{ChannelList, Token as CTok};
            let sp = unesc(case["spec"].as_str().unwrap());
            let tok = ChannelList::new(&sp).and_then(|mut l| l.next()).and_then(|r| r.ok());
            let code: Option<i16> = match tok {
                Some(CTok::ChannelSpec(c)) => match c.dimension() {
                    1 => usize::try_from(c).err().map(|e| e.get_code()),
                    2 => <(usize, usize)>::try_from(c).err().map(|e| e.get_code()),
                    _ => <(usize, usize, usize)>::try_from(c).err().map(|e| e.get_code()),
                },
                _ => None,
            };
            if code.and_then(class_of) == Some(Class::Execution) {
                Ok(format!("{:?}", code))
            } else {
                Err(format!("conversion-fault-class: {:?}", code))
            }
        }
        Some("buffer") => {
            use crate::rig::RigDev;
            let spec = crate::props::c10::framing_tree();
            let mut dev = RigDev::new();
            crate::props::c10::framing_plans(&mut dev);
            let m = unesc(case["msg"].as_str().unwrap());
            let cap = case["cap"].as_u64().unwrap() as usize;
            let cr = crate::props::c11::run_with_cap(cap, spec.build(), &mut dev, &m)?;
            match cr.result {
                Err(code) if class_of(code) == Some(Class::Execution) => Ok(format!("{code}")),
                other => Err(format!("buffer-fault-class: {:?}", other)),
            }
        }
        Some("list") => {
            use scpi::parser::expression::channel_list::ChannelList;
            use scpi::parser::expression::numeric_list::NumericList;
            let body = unesc(case["body"].as_str().unwrap_or(""));
            let code = if case["which"] == "numeric" {
                NumericList::new(&body).find_map(|r| r.err()).map(|e| e.get_code())
            } else {
                ChannelList::new(&body).and_then(|l| l.into_iter().find_map(|r| r.err())).map(|e| e.get_code())
            };
            match code {
                Some(c) if class_of(c) != Some(Class::Command) => Err(format!("list-fault-class: {c}")),
                other => Ok(format!("{:?}", other)),
            }
        }
        Some("positional") => {
            let (_, bad) = positional_faults();
            match bad.first() {
                Some((_, w)) => Err(format!("fault-class-by-position: {w}")),
                None => Ok("fault classes do not depend on the parameter position".into()),
            }
        }
        Some("quantity-type") => {
            let (_, bad) = quantity_type_faults();
            match bad.first() {
                Some((_, w)) => Err(format!("conversion-fault-class: {w}")),
                None => Ok("all quantity data-type faults are command errors".into()),
            }
        }
        Some("std-code") => {
            let n = case["n"].as_i64().unwrap() as i16;
            match ErrorCode::get_error(n) {
                Some(e) if e.get_code() == n => Ok(format!("{n} known")),
                Some(e) => Err(format!("lookup-roundtrip: get_error({n}) reports {}", e.get_code())),
                None => Err(format!("lookup-missing: get_error({n}) is None")),
            }
        }
        _ => engine_failure("bad C14 replay"),
    }
}
