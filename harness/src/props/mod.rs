pub mod c12;
pub mod c13;
pub mod c15;
pub mod c16;
