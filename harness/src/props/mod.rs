pub mod c12;
