pub mod c02;
pub mod c03;
pub mod c12;
pub mod c13;
pub mod c14;
pub mod c15;
pub mod c16;
