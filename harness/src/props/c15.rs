//! C15 – status event registers latch filtered condition transitions until read.
//! stateright BFS to fixpoint over the real OPERation/QUEStionable register sets, reached through
//! the real command tree and the real `EventRegister::set_condition*`, in lock-step with the
//! bitwise reference model of `scpimodel`.

use crate::core::*;
use crate::lockstep::Mismatch;
use crate::scpimodel::*;
use serde_json::{json, Value};

fn subsets(bits: &[u8]) -> Vec<u16> {
    let mut v = vec![];
    for m in 0..(1u32 << bits.len()) {
        let mut x = 0u16;
        for (i, b) in bits.iter().enumerate() {
            if m & (1 << i) != 0 {
                x |= 1 << b;
            }
        }
        v.push(x);
    }
    v
}

fn wname(w: Which) -> &'static str {
    match w {
        Which::Oper => "OPER",
        Which::Ques => "QUES",
    }
}

/// All actions on one register set over the value set `vals`.
pub fn reg_actions(w: Which, vals: &[u16], with_bits_api: bool, alt_spellings: bool) -> Vec<Act> {
    let n = wname(w);
    let mut a = vec![];
    for &v in vals {
        a.push(Act::SetCond(w, v));
    }
    for (f, fname) in [(Field::Enable, "ENAB"), (Field::Ptr, "PTR"), (Field::Ntr, "NTR")] {
        for (i, &v) in vals.iter().enumerate() {
            // alternate decimal and #H spelling of the same value
            let text = if alt_spellings && i % 2 == 1 {
                format!("STAT:{n}:{fname} #H{:X}", v)
            } else {
                format!("STAT:{n}:{fname} {}", v)
            };
            a.push(msg1(&text, U::RegSet(w, f, v)));
        }
    }
    a.push(msg1(&format!("STAT:{n}:EVEN?"), U::RegQ(w, Field::Event)));
    a.push(msg1(&format!("STAT:{n}?"), U::RegQ(w, Field::Event)));
    a.push(msg1(&format!("STAT:{n}:COND?"), U::RegQ(w, Field::Cond)));
    a.push(msg1(&format!("STAT:{n}:ENAB?"), U::RegQ(w, Field::Enable)));
    a.push(msg1(&format!("STAT:{n}:PTR?"), U::RegQ(w, Field::Ptr)));
    a.push(msg1(&format!("STAT:{n}:NTR?"), U::RegQ(w, Field::Ntr)));
    // several observations in one message (relative headers)
    a.push(msg(vec![
        unit(&format!("STAT:{n}:COND?"), U::RegQ(w, Field::Cond)),
        unit("EVEN?", U::RegQ(w, Field::Event)),
        unit("EVEN?", U::RegQ(w, Field::Event)),
        unit("ENAB?", U::RegQ(w, Field::Enable)),
    ]));
    if with_bits_api {
        for &v in vals {
            if v != 0 {
                a.push(Act::SetBits(w, v));
                a.push(Act::ClearBits(w, v));
            }
        }
    }
    a
}

pub fn common_actions() -> Vec<Act> {
    vec![msg1("*CLS", U::Cls), msg1("STAT:PRES", U::Preset), msg1("status:preset", U::Preset)]
}

pub fn out_of_range(w: Which) -> Vec<Act> {
    let n = wname(w);
    vec![
        msg1(&format!("STAT:{n}:ENAB 65536"), U::Fail(RefErr::lib(-222))),
        msg1(&format!("STAT:{n}:PTR -1"), U::Fail(RefErr::lib(-222))),
        msg1(&format!("STAT:{n}:NTR"), U::Fail(RefErr::lib(-109))),
        msg1(&format!("STAT:{n}:ENAB 65535"), U::RegSet(w, Field::Enable, 65535)),
        msg1(&format!("STAT:{n}:COND 1"), U::Fail(RefErr::std(-113).any_of_class())),
    ]
}

pub fn slices(tier: Tier) -> Vec<Slice> {
    let mut v = vec![];
    // (main) one register set over all subsets of a representative bit set
    let bits: &[u8] = tier.pick(&[0, 14, 15][..], &[0, 7, 14, 15][..]);
    for w in [Which::Oper, Which::Ques] {
        // thorough: the second set over a smaller bit set (the code is generic over the set)
        let bits: &[u8] = if tier == Tier::Thorough && w == Which::Ques { &[0, 14, 15] } else { bits };
        let vals = subsets(bits);
        let mut a = reg_actions(w, &vals, true, true);
        a.extend(common_actions());
        a.extend(out_of_range(w));
        v.push(Slice {
            name: format!("C15/{}-bits{:?}", wname(w), bits),
            q: QKind::Vec,
            alphabet: a,
            max_queue: 1,
        });
    }
    // (i) every single bit position, both sets
    for b in 0..16u8 {
        for w in [Which::Oper, Which::Ques] {
            if tier == Tier::Quick && w == Which::Ques && b % 5 != 0 {
                continue;
            }
            let vals = subsets(&[b]);
            let mut a = reg_actions(w, &vals, true, false);
            a.extend(common_actions());
            v.push(Slice {
                name: format!("C15/{}-bit{}", wname(w), b),
                q: QKind::Vec,
                alphabet: a,
                max_queue: 0,
            });
        }
    }
    // (ii) independence: both sets with one bit each, in one product
    {
        let mut a = reg_actions(Which::Oper, &subsets(&[3]), false, false);
        a.extend(reg_actions(Which::Ques, &subsets(&[3]), false, false));
        a.extend(common_actions());
        v.push(Slice {
            name: "C15/OPERxQUES-bit3".into(),
            q: QKind::Vec,
            alphabet: a,
            max_queue: 0,
        });
    }
    v
}

pub fn run(ctx: &'static Ctx) -> i32 {
    run_slices(
        ctx,
        slices(ctx.tier),
        "BFS to fixpoint; state = the five registers (condition, event, enable, PTR, NTR) of a register set (plus queue/ESR touched by failing writes); actions = device-side condition := v through the real set_condition / set_condition_bits / clear_condition_bits, STAT:<set>:ENAB|PTR|NTR v (decimal and #H), [:EVEN]?, COND?, ENAB?, PTR?, NTR?, *CLS, STAT:PRES, out-of-range and malformed writes, for v over all subsets of a representative bit set; then one slice per bit position 0..15 and a product slice of both sets; every transition compares responses, return values and all register fields (modulo bit 15) with the bitwise reference model; counted non-trivial = state-changing transitions",
        vec![
            "values range over subsets of a representative bit set incl. bit 0, the highest usable bit 14 and the unusable bit 15; the register code is bitwise-uniform, and every single bit position is additionally explored on its own".into(),
            "STATus:PRESet leaves the condition register to the device (SCPI-99 20.2), see DESIGN.md section 3.4".into(),
            "device fields are compared modulo bit 15: the property constrains only what is reported".into(),
        ],
        vec![("bounds", json!({"bit_set": format!("{:?}", ctx.tier.pick(&[0u8, 14, 15][..], &[0u8, 7, 14, 15][..]))}))],
    )
}

pub fn replay(case: &Value) -> Result<String, Mismatch> {
    replay_with(slices(tier_of(case)), case)
}
