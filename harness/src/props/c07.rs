//! C07 – integer parameters convert to the exactly rounded value or a range error.
//! Exhaustive structured literal families x ten integer targets (+ bool), against an exact
//! decimal oracle (`decnum`), through `TryFrom<Token>` and through `Parameters::next_data` in a
//! real message.

use crate::core::*;
use crate::refmodel::decnum::*;
use scpi::error::Result as SResult;
use scpi::tree::prelude::*;
use serde_json::{json, Value};
use std::marker::PhantomData;

#[derive(Clone, Copy, Debug, PartialEq)]
pub struct Target {
    pub name: &'static str,
    pub min: i128,
    pub max: i128,
    pub via: Via,
    pub idx: usize,
}

pub const TARGETS: &[Target] = &[
    Target { name: "u8", min: 0, max: u8::MAX as i128, via: Via::F32, idx: 0 },
    Target { name: "i8", min: i8::MIN as i128, max: i8::MAX as i128, via: Via::F32, idx: 1 },
    Target { name: "u16", min: 0, max: u16::MAX as i128, via: Via::F32, idx: 2 },
    Target { name: "i16", min: i16::MIN as i128, max: i16::MAX as i128, via: Via::F32, idx: 3 },
    Target { name: "u32", min: 0, max: u32::MAX as i128, via: Via::F64, idx: 4 },
    Target { name: "i32", min: i32::MIN as i128, max: i32::MAX as i128, via: Via::F64, idx: 5 },
    Target { name: "u64", min: 0, max: u64::MAX as i128, via: Via::F64, idx: 6 },
    Target { name: "i64", min: i64::MIN as i128, max: i64::MAX as i128, via: Via::F64, idx: 7 },
    Target { name: "usize", min: 0, max: usize::MAX as i128, via: Via::F64, idx: 8 },
    Target { name: "isize", min: isize::MIN as i128, max: isize::MAX as i128, via: Via::F64, idx: 9 },
];

/// Result of a conversion: Ok(value) or Err(code).
pub type Conv = Result<i128, i16>;

pub fn convert_token(t: Token, idx: usize) -> Conv {
    macro_rules! c {
        ($ty:ty) => {
            <$ty>::try_from(t).map(|v| v as i128).map_err(|e| e.get_code())
        };
    }
    match idx {
        0 => c!(u8),
        1 => c!(i8),
        2 => c!(u16),
        3 => c!(i16),
        4 => c!(u32),
        5 => c!(i32),
        6 => c!(u64),
        7 => c!(i64),
        8 => c!(usize),
        _ => c!(isize),
    }
}

// ---- through a real message

pub struct NumDev {
    pub last: Option<Conv>,
    pub last_bool: Option<Result<bool, i16>>,
}
impl Device for NumDev {
    fn handle_error(&mut self, _e: Error) {}
}
pub struct IntCmd<T>(PhantomData<T>);
impl<T> Command<NumDev> for IntCmd<T>
where
    T: for<'a> TryFrom<Token<'a>, Error = Error> + Into<i128>,
{
    fn event(&self, d: &mut NumDev, _c: &mut Context, mut p: Parameters) -> SResult<()> {
        let r: SResult<T> = p.next_data();
        d.last = Some(r.map(|v| v.into()).map_err(|e| e.get_code()));
        Ok(())
    }
}
pub struct SizeCmd<const SIGNED: bool>;
impl<const SIGNED: bool> Command<NumDev> for SizeCmd<SIGNED> {
    fn event(&self, d: &mut NumDev, _c: &mut Context, mut p: Parameters) -> SResult<()> {
        d.last = Some(if SIGNED {
            p.next_data::<isize>().map(|v| v as i128).map_err(|e| e.get_code())
        } else {
            p.next_data::<usize>().map(|v| v as i128).map_err(|e| e.get_code())
        });
        Ok(())
    }
}
pub struct BoolCmd;
impl Command<NumDev> for BoolCmd {
    fn event(&self, d: &mut NumDev, _c: &mut Context, mut p: Parameters) -> SResult<()> {
        d.last_bool = Some(p.next_data::<bool>().map_err(|e| e.get_code()));
        Ok(())
    }
}

pub const NUM_TREE: Node<NumDev> = Node::Branch {
    name: b"",
    default: false,
    sub: &[
        Node::Leaf { name: b"T0", default: false, handler: &IntCmd::<u8>(PhantomData) },
        Node::Leaf { name: b"T1", default: false, handler: &IntCmd::<i8>(PhantomData) },
        Node::Leaf { name: b"T2", default: false, handler: &IntCmd::<u16>(PhantomData) },
        Node::Leaf { name: b"T3", default: false, handler: &IntCmd::<i16>(PhantomData) },
        Node::Leaf { name: b"T4", default: false, handler: &IntCmd::<u32>(PhantomData) },
        Node::Leaf { name: b"T5", default: false, handler: &IntCmd::<i32>(PhantomData) },
        Node::Leaf { name: b"T6", default: false, handler: &IntCmd::<u64>(PhantomData) },
        Node::Leaf { name: b"T7", default: false, handler: &IntCmd::<i64>(PhantomData) },
        Node::Leaf { name: b"T8", default: false, handler: &SizeCmd::<false> },
        Node::Leaf { name: b"T9", default: false, handler: &SizeCmd::<true> },
        Node::Leaf { name: b"TB", default: false, handler: &BoolCmd },
    ],
};

pub fn convert_via_message(data: &[u8], idx: usize) -> Result<Conv, String> {
    let mut msg = format!("T{idx} ").into_bytes();
    msg.extend_from_slice(data);
    let mut dev = NumDev { last: None, last_bool: None };
    let mut ctx = Context::default();
    let mut out: Vec<u8> = Vec::new();
    let r = guarded(|| NUM_TREE.run(&msg, &mut dev, &mut ctx, &mut out))?;
    match (r, dev.last) {
        (_, Some(c)) => Ok(c),
        (Err(e), None) => Ok(Err(e.get_code())),
        (Ok(()), None) => Err("handler not reached".into()),
    }
}

pub fn bool_via_message(data: &[u8]) -> Result<Result<bool, i16>, String> {
    let mut msg = b"TB ".to_vec();
    msg.extend_from_slice(data);
    let mut dev = NumDev { last: None, last_bool: None };
    let mut ctx = Context::default();
    let mut out: Vec<u8> = Vec::new();
    let r = guarded(|| NUM_TREE.run(&msg, &mut dev, &mut ctx, &mut out))?;
    match (r, dev.last_bool) {
        (_, Some(c)) => Ok(c),
        (Err(e), None) => Ok(Err(e.get_code())),
        (Ok(()), None) => Err("handler not reached".into()),
    }
}

// ---- literal families

pub fn bound_ints() -> Vec<String> {
    let bs: [u128; 8] = [127, 255, 32767, 65535, 2147483647, 4294967295, 9223372036854775807, 18446744073709551615];
    let mut v = vec![];
    for b in bs {
        for d in [b - 1, b, b + 1, b + 2] {
            v.push(format!("{d}"));
        }
    }
    // as many digits as the type maximum but larger (digit-count based overflow checks miss these)
    for b in bs {
        let d = b.to_string().len() as u32;
        let nines = 10u128.pow(d) - 1;
        v.push(format!("{nines}"));
        v.push(format!("{}", b * 2));
        v.push(format!("{}", (b + 10u128.pow(d - 1)).min(nines)));
        v.push(format!("{}", (b / 10u128.pow(d - 1) + 1).min(9) * 10u128.pow(d - 1)));
        v.push(format!("{}", 10u128.pow(d)));
    }
    v.sort();
    v.dedup();
    v
}

pub fn literal_grammar(full: bool) -> Vec<String> {
    let signs = ["", "+", "-"];
    let mut ints: Vec<String> = ["", "0", "00", "1", "7", "12"].iter().map(|s| s.to_string()).collect();
    let bi = bound_ints();
    let _ = full;
    ints.extend(bi);
    // where the spacing of the intermediate float types is 1 or 2: odd integers must survive a
    // fraction / exponent spelling exactly when they are representable
    for v in ["8388607", "8388609", "16777215", "16777217", "4503599627370495", "4503599627370497", "9007199254740991", "9007199254740993", "4611686018427387905"] {
        ints.push(v.to_string());
    }
    // fractions: the neighbours of one half in f32 and in f64 are not ties
    let fracs = [
        "", ".", ".0", ".4", ".49999", ".49999997", ".49999999", ".4999999999", ".49999999999999994", ".4999999999999999999", ".5", ".50", ".50000001", ".50000006", ".5000000000000001", ".500000000000000001", ".6", ".9",
    ];
    let exps = ["", "E0", "e+0", "E1", "E-1", "E2", "e-2", "E18", "E19", "E20", "E-400", "E400"];
    let mut out = vec![];
    for s in signs {
        for i in &ints {
            for f in fracs {
                if i.is_empty() && (f.is_empty() || f == ".") {
                    continue;
                }
                for e in exps {
                    out.push(format!("{s}{i}{f}{e}"));
                }
            }
        }
    }
    // shifted bounds: bound expressed with exponent / fraction
    for b in ["12.7E1", "1.27E2", "1275E-1", "25.5e1", "2.555E2", "32.767E3", "655355E-1", "0.0000655355E9", "21474836.47E2", "429496729.55e1", "9.223372036854775807E18", "9223372036854775.8075E3", "1.8446744073709551615E19", "18446744073709551615.5", "18446744073709551614.5"] {
        for s in signs {
            out.push(format!("{s}{b}"));
        }
    }
    out.sort();
    out.dedup();
    out
}

/// Judge one conversion outcome. `None` = conforms.
pub fn judge_int(lit: &[u8], t: &Target, got: &Conv) -> Option<(String, String)> {
    let o = match IntOracle::new(lit, t.min, t.max, t.via) {
        Some(o) => o,
        None => return None, // not an NRf literal: not this function's business
    };
    let l = esc(lit);
    match got {
        Ok(v) => {
            if !o.ok_acceptable(*v) {
                let key = if o.range_error_acceptable() && !(t.min..=t.max).any_acceptable(&o) {
                    "value-where-range-error-due"
                } else {
                    "wrong-value"
                };
                return Some((key.into(), format!("`{l}` as {} = {v}, which is not the literal's value rounded to the nearest integer", t.name)));
            }
            None
        }
        Err(-222) => {
            if !o.range_error_acceptable() {
                return Some(("spurious-range-error".into(), format!("`{l}` as {} gave -222 although its rounded value is representable", t.name)));
            }
            None
        }
        Err(c) => Some(("wrong-error".into(), format!("`{l}` as {} gave error {c}; expected a value or -222", t.name))),
    }
}

trait AnyAcceptable {
    fn any_acceptable(&self, o: &IntOracle) -> bool;
}
impl AnyAcceptable for std::ops::RangeInclusive<i128> {
    /// is some in-range integer acceptable? (checked on the few candidates around the bounds and 0)
    fn any_acceptable(&self, o: &IntOracle) -> bool {
        let (a, b) = (*self.start(), *self.end());
        [a, a + 1, b - 1, b, 0, 1, -1].iter().any(|v| *v >= a && *v <= b && o.ok_acceptable(*v))
    }
}

pub fn judge_bool(lit: &[u8], got: &Result<bool, i16>) -> Option<(String, String)> {
    let o = IntOracle::new(lit, isize::MIN as i128, isize::MAX as i128, Via::F64)?;
    match got {
        Ok(b) => {
            if !o.bool_acceptable(*b) {
                return Some(("bool-wrong-value".into(), format!("`{}` as bool = {b}", esc(lit))));
            }
            None
        }
        Err(c) => Some(("bool-numeric-rejected".into(), format!("`{}` as bool gave error {c}; every decimal numeric denotes true or false", esc(lit)))),
    }
}

#[derive(Default)]
struct Acc {
    evals: u64,
    near_bound_or_half: u64,
    range_errors: u64,
    ok_values: u64,
}

fn check_literal(ctx: &Ctx, order: u64, lit: &[u8], acc: &mut Acc, via_message: bool) {
    let tok = Token::DecimalNumericProgramData(lit);
    for t in TARGETS {
        acc.evals += 1;
        let got = match guarded(|| convert_token(tok, t.idx)) {
            Ok(g) => g,
            Err(p) => {
                ctx.violation(order, "panic", &format!("`{}` as {} panicked: {p}", esc(lit), t.name), json!({"kind": "int", "literal": esc(lit), "target": t.idx, "via_message": false}));
                continue;
            }
        };
        match &got {
            Ok(_) => acc.ok_values += 1,
            Err(_) => acc.range_errors += 1,
        }
        if let Some((k, w)) = judge_int(lit, t, &got) {
            ctx.violation(order, &k, &w, json!({"kind": "int", "literal": esc(lit), "target": t.idx, "via_message": false}));
        }
        if via_message {
            acc.evals += 1;
            match convert_via_message(lit, t.idx) {
                Ok(g2) => {
                    if g2 != got {
                        ctx.violation(order, "message-path-differs", &format!("`{}` as {}: TryFrom gives {:?}, next_data in a message gives {:?}", esc(lit), t.name, got, g2), json!({"kind": "int", "literal": esc(lit), "target": t.idx, "via_message": true}));
                    }
                }
                Err(p) => {
                    ctx.violation(order, "panic", &format!("`T{} {}` panicked: {p}", t.idx, esc(lit)), json!({"kind": "int", "literal": esc(lit), "target": t.idx, "via_message": true}));
                }
            }
        }
    }
    // bool
    acc.evals += 1;
    match guarded(|| bool::try_from(tok).map_err(|e| e.get_code())) {
        Ok(g) => {
            if let Some((k, w)) = judge_bool(lit, &g) {
                ctx.violation(order, &k, &w, json!({"kind": "bool", "literal": esc(lit)}));
            }
        }
        Err(p) => {
            ctx.violation(order, "panic", &format!("`{}` as bool panicked: {p}", esc(lit)), json!({"kind": "bool", "literal": esc(lit)}));
        }
    }
}

/// Non-decimal literals, keywords, other element types.
fn fixed_table(ctx: &Ctx, base: u64, acc: &mut Acc) {
    let vals: Vec<u128> = vec![0, 1, 127, 128, 255, 256, 32767, 32768, 65535, 65536, 2147483647, 2147483648, 4294967295, 4294967296, 9223372036854775807, 9223372036854775808, 18446744073709551615];
    let mut k = 0;
    for v in &vals {
        for radix in [16u32, 8, 2] {
            let text = match radix {
                16 => format!("#H{:X}", v),
                8 => format!("#Q{:o}", v),
                _ => format!("#B{:b}", v),
            };
            for t in TARGETS {
                k += 1;
                acc.evals += 1;
                let want: Conv = if (*v as i128) <= t.max { Ok(*v as i128) } else { Err(-222) };
                let got_tok = convert_token(Token::NonDecimalNumericProgramData(*v as u64), t.idx);
                let got_msg = convert_via_message(text.as_bytes(), t.idx);
                if got_tok != want {
                    ctx.violation(base + k, "nondecimal-wrong", &format!("non-decimal value {v} as {}: {:?}, expected {:?}", t.name, got_tok, want), json!({"kind": "nondec", "text": text, "target": t.idx}));
                }
                if got_msg != Ok(want) {
                    ctx.violation(base + k, "nondecimal-wrong", &format!("`{text}` as {} in a message: {:?}, expected {:?}", t.name, got_msg, want), json!({"kind": "nondec", "text": text, "target": t.idx}));
                }
            }
        }
    }
    // 2^64 does not fit the lexer's value: must be an error, never a value
    let mut over: Vec<String> = vec!["#H10000000000000000".into(), "#HFFFFFFFFFFFFFFFFF".into(), format!("#B1{}", "0".repeat(64)), format!("#B{}", "1".repeat(65))];
    for d in 2..=7 {
        over.push(format!("#Q{d}{}", "0".repeat(21)));
        over.push(format!("#Q{d}{}", "7".repeat(21)));
    }
    for d in ["2", "9", "F", "10", "FF"] {
        over.push(format!("#H{d}{}", "0".repeat(16)));
    }
    for text in over.iter().map(|s| s.as_str()) {
        for t in TARGETS {
            k += 1;
            acc.evals += 1;
            match convert_via_message(text.as_bytes(), t.idx) {
                Ok(Err(c)) if c == -222 || (-199..=-100).contains(&c) => {}
                other => {
                    ctx.violation(base + k, "nondecimal-overflow", &format!("`{text}` as {}: {:?}, expected an error", t.name, other), json!({"kind": "nondec", "text": text, "target": t.idx}));
                }
            }
        }
    }
    // MIN / MAX keywords
    for (kw, which) in [("MIN", 0), ("MINimum", 0), ("min", 0), ("MINIMUM", 0), ("MAX", 1), ("MAXimum", 1), ("maximum", 1), ("mAx", 1)] {
        for t in TARGETS {
            k += 1;
            acc.evals += 1;
            let want = Ok(if which == 0 { t.min } else { t.max });
            let got = convert_token(Token::CharacterProgramData(kw.as_bytes()), t.idx);
            let gm = convert_via_message(kw.as_bytes(), t.idx);
            if got != want || gm != Ok(want) {
                ctx.violation(base + k, "keyword-bound", &format!("`{kw}` as {}: {:?} / {:?}, expected {:?}", t.name, got, gm, want), json!({"kind": "other", "text": kw, "target": t.idx}));
            }
        }
    }
    // everything else must be a command error, never a value
    for text in ["MINI", "MA", "MAXIMU", "MAX1", "ABC", "INF", "\"1\"", "'1'", "#11", "#10", "(1)", "(@1)", "1V", "1 V", "1.5E3 MV", "0 S"] {
        for t in TARGETS {
            k += 1;
            acc.evals += 1;
            match convert_via_message(text.as_bytes(), t.idx) {
                Ok(Err(c)) if (-199..=-100).contains(&c) => {}
                other => {
                    ctx.violation(base + k, "non-numeric-accepted", &format!("`{text}` as {}: {:?}, expected a command error", t.name, other), json!({"kind": "other", "text": text, "target": t.idx}));
                }
            }
        }
    }
}

pub fn run(ctx: &'static Ctx) -> i32 {
    if let Err(e) = self_check() {
        engine_failure(&e);
    }
    let lits = literal_grammar(ctx.tier == Tier::Thorough);
    let nl = lits.len() as u64;
    let accs = par_sweep(
        ctx,
        nl,
        SweepOpts {
            name: "C07 literal grammar",
            chunk: 64,
            hang_secs: 30,
        },
        Acc::default,
        |i, acc: &mut Acc| {
            let lit = lits[i as usize].as_bytes();
            let f = &lits[i as usize];
            if f.contains(".4") || f.contains(".5") || f.contains(".6") || f.len() > 8 {
                acc.near_bound_or_half += 1;
            }
            check_literal(ctx, i, lit, acc, i % 3 == 0 || ctx.tier == Tier::Thorough);
        },
        |i| json!({"kind": "int", "literal": lits[i as usize], "target": 0, "via_message": false}),
    );
    // all strings over a small numeric alphabet that are NRf literals
    let alpha: &[u8] = b"+-0159.E";
    let n = ctx.tier.pick(7u32, 9u32);
    let ns = count_upto(alpha.len() as u64, n);
    let accs2 = par_sweep(
        ctx,
        ns,
        SweepOpts {
            name: "C07 all short literals",
            chunk: 1024,
            hang_secs: 30,
        },
        Acc::default,
        |i, acc: &mut Acc| {
            let mut buf = [0u8; 12];
            let l = nth_string(alpha, i, &mut buf);
            let lit = &buf[..l];
            if parse_nrf(lit).is_some() {
                check_literal(ctx, nl + i, lit, acc, false);
            }
        },
        |i| json!({"kind": "short-index", "index": i}),
    );
    // a second alphabet with every digit
    let alpha_b: &[u8] = b"-.E0123456789";
    let nb = ctx.tier.pick(5u32, 7u32);
    let nsb = count_upto(alpha_b.len() as u64, nb);
    let accs3 = par_sweep(
        ctx,
        nsb,
        SweepOpts {
            name: "C07 all short literals over all digits",
            chunk: 1024,
            hang_secs: 30,
        },
        Acc::default,
        |i, acc: &mut Acc| {
            let mut buf = [0u8; 12];
            let l = nth_string(alpha_b, i, &mut buf);
            let lit = &buf[..l];
            if parse_nrf(lit).is_some() {
                check_literal(ctx, nl + ns + i, lit, acc, false);
            }
        },
        |i| json!({"kind": "short-index-b", "index": i}),
    );
    let mut acc = Acc::default();
    for a in accs.into_iter().chain(accs2).chain(accs3) {
        acc.evals += a.evals;
        acc.near_bound_or_half += a.near_bound_or_half;
        acc.range_errors += a.range_errors;
        acc.ok_values += a.ok_values;
    }
    fixed_table(ctx, nl + ns + nsb, &mut acc);
    let mut c = cov();
    c.insert("evaluations".into(), json!(acc.evals));
    c.insert("distinct_nontrivial".into(), json!(acc.near_bound_or_half));
    c.insert("rule".into(), json!(format!("literal grammar sign x integer part x fraction x exponent ({nl} literals: signs none/+/-; integer parts '',0,00,1,7,12 and every type bound -1/+0/+1/+2; fractions none, '.', .0, .4, .49999, .49999997 and .49999999999999994 (the f32 / f64 predecessors of one half), .49999999, .4999999999, .4999999999999999999, .5, .50, .50000001, .50000006, .5000000000000001, .500000000000000001, .6, .9; odd integers around 2^23, 2^24, 2^52, 2^53, 2^62; exponents none, E0, e+0, E1, E-1, E2, e-2, E18, E19, E20, E-400, E400; plus bounds written with shifted decimal points) and every NRf literal among the {ns} strings of length <= {n} over `+-0159.E` and among the {nsb} strings of length <= {nb} over `-.E0123456789`, x 10 integer targets + bool, through TryFrom<Token> and through Parameters::next_data in a real message; plus non-decimal literals (#H/#Q/#B of 0, 1, every bound, bound+1, 2^64-1, 2^64), MIN/MAX keywords in 8 spellings, near-miss keywords and every other element type. Oracle: exact decimal arithmetic (refmodel/decnum.rs): Ok(r) requires |r - x| <= 1/2 + delta, where delta is the distance from x to the farther of the two adjacent floats of the intermediate type that bracket it (0 if x is representable or the spelling is plain NR1); -222 requires that some such integer is unrepresentable. Distinct non-trivial = literals at a half-integer or next to a type bound")));
    c.insert("exhaustive".into(), json!(true));
    c.insert("conversions_ok".into(), json!(acc.ok_values));
    c.insert("conversions_range_error".into(), json!(acc.range_errors));
    c.insert("samples".into(), json!(["255.4", "-0.4999999999999999999", "9223372036854775806E0", "18446744073709551614.", ".500000000000000001E1", "0E0", "#H8000000000000000", "MAXimum"]));
    ctx.finish(
        "exploration",
        c,
        vec![
            "tolerance (DESIGN.md section 3.3, tightened after seeded change C07-a): the literal may be replaced by either adjacent float (f32 for 8/16-bit targets, f64 otherwise) that brackets its exact value; either neighbour at a tie; representable values and NR1 spellings exact".into(),
            "64-bit value space is covered by structured families (bounds, halves, exponents), not exhaustively".into(),
        ],
    )
}

pub fn replay(case: &Value) -> Result<String, String> {
    match case["kind"].as_str() {
        Some("int") => {
            let lit = unesc(case["literal"].as_str().unwrap_or(""));
            let t = &TARGETS[case["target"].as_u64().unwrap_or(0) as usize];
            let got = if case["via_message"].as_bool().unwrap_or(false) {
                convert_via_message(&lit, t.idx)?
            } else {
                guarded(|| convert_token(Token::DecimalNumericProgramData(&lit), t.idx))?
            };
            match judge_int(&lit, t, &got) {
                Some((k, w)) => Err(format!("{k}: {w}")),
                None => {
                    let direct = guarded(|| convert_token(Token::DecimalNumericProgramData(&lit), t.idx))?;
                    if direct != got {
                        Err(format!("message-path-differs: {:?} vs {:?}", direct, got))
                    } else {
                        Ok(format!("{:?}", got))
                    }
                }
            }
        }
        Some("bool") => {
            let lit = unesc(case["literal"].as_str().unwrap_or(""));
            let g = guarded(|| bool::try_from(Token::DecimalNumericProgramData(&lit)).map_err(|e| e.get_code()))?;
            match judge_bool(&lit, &g) {
                Some((k, w)) => Err(format!("{k}: {w}")),
                None => Ok(format!("{:?}", g)),
            }
        }
        Some("nondec") | Some("other") => {
            // re-run the whole fixed table; report whether this text still fails
            let ctx2: &'static Ctx = Box::leak(Box::new(Ctx::new("C07", Tier::Quick)));
            let mut acc = Acc::default();
            fixed_table(ctx2, 0, &mut acc);
            if ctx2.violation_count() > 0 {
                Err("fixed-table case still fails".into())
            } else {
                Ok("fixed table conforms".into())
            }
        }
        _ => engine_failure("bad C07 replay"),
    }
}
