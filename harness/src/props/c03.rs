//! C03 – mnemonics match only their short or long form, with the default-1 suffix rule.
//! Exhaustive enumeration of (definition, candidate) pairs against an independent matcher.

use crate::core::*;
use crate::refmodel::mnemonic::*;
use scpi::parser::tokenizer::Token;
use scpi::parser::{mnemonic_compare, mnemonic_match};
use serde_json::{json, Value};

pub const REAL_MNEMONICS: &[&str] = &[
    "MEASure", "VOLTage", "CURRent", "FREQuency", "TRIGger", "SOURce", "SENSe", "SYSTem", "ERRor", "STATus",
    "OPERation", "QUEStionable", "CONDition", "ENABle", "NTRansition", "PTRansition", "EVENt", "PRESet", "NEXT",
    "ALL", "COUNt", "VERSion", "INITiate", "IMMediate", "CALCulate", "DISPlay", "FORMat", "INPut", "OUTPut", "ROUTe",
    "CLOSe", "OPEN", "SCAN", "DC", "AC", "RANGe", "AUTO", "RESolution", "NPLCycles", "APERture", "DELay", "LEVel",
    "MINimum", "MAXimum", "DEFault", "UP", "DOWN", "INFinity", "NINFinity", "NAN", "ONCE", "OUTPut2", "CHANnel12",
    "INPut1", "TRIGger2", "L125", "ASCii1", "ASCii2", "ABCDefghijkl", "ABCDEFGHIJKL", "ABCDEFGHIJ12", "Zz", "CH123456789", "A12345678901", "MODule100000001", "SLOt123", "TRIGger1234", "Ab12", "CHan123",
];

fn defs(max_s: u32, max_t: u32) -> Vec<Vec<u8>> {
    let mut v = vec![];
    let mut sbuf = [0u8; 8];
    let mut tbuf = [0u8; 8];
    let ns = count_upto(2, max_s);
    let nt = count_upto(2, max_t);
    for si in 1..ns {
        let sl = nth_string(b"AB", si, &mut sbuf);
        for ti in 0..nt {
            let tl = nth_string(b"ab", ti, &mut tbuf);
            for n in ["", "1", "2", "12", "01", "0"] {
                let mut d = sbuf[..sl].to_vec();
                d.extend_from_slice(&tbuf[..tl]);
                d.extend_from_slice(n.as_bytes());
                if d.len() <= 12 {
                    v.push(d);
                }
            }
        }
    }
    v
}

/// One (definition, candidate) comparison through all entry points. Returns a failure description.
fn check_pair(def: &'static [u8], cand: &[u8]) -> Option<(String, String)> {
    let exp = ref_match(def, cand);
    let got = mnemonic_match(def, cand);
    let got_hdr = Token::ProgramMnemonic(cand).match_program_header(def);
    let got_chr = Token::CharacterProgramData(cand).match_program_header(def);
    if got_hdr != got || got_chr != got {
        return Some((
            "entry-points-disagree".into(),
            format!("mnemonic_match={got}, match_program_header(ProgramMnemonic)={got_hdr}, (CharacterProgramData)={got_chr}"),
        ));
    }
    if let Some(e) = exp {
        if e != got {
            let key = if e { "rejects-valid-form" } else { "accepts-invalid-form" };
            return Some((key.into(), format!("mnemonic_match(`{}`, `{}`) = {got}, reference says {e}", esc(def), esc(cand))));
        }
    }
    if let Some(e) = ref_compare_keyword(def, cand) {
        let g = mnemonic_compare(def, cand);
        if g != e {
            let key = if e { "compare-rejects-valid-form" } else { "compare-accepts-invalid-form" };
            return Some((key.into(), format!("mnemonic_compare(`{}`, `{}`) = {g}, reference says {e}", esc(def), esc(cand))));
        }
    }
    None
}

#[derive(Default)]
struct Acc {
    evals: u64,
    matches: u64,
    near: u64,
    unspecified: u64,
}

fn neighbourhood(def: &[u8]) -> Vec<Vec<u8>> {
    let (_, long, _) = match split_def(def) {
        Some(x) => x,
        None => return vec![],
    };
    let mut bases: Vec<Vec<u8>> = vec![];
    // every prefix of the long form
    for l in 1..=long.len() {
        bases.push(long[..l].to_vec());
    }
    // single-character deletions, insertions, substitutions on short and long form
    let nu = long.iter().take_while(|c| c.is_ascii_uppercase()).count();
    for form in [&long[..nu], long] {
        for i in 0..form.len() {
            let mut d = form.to_vec();
            d.remove(i);
            bases.push(d);
            for c in [b'X', b'_', b'1'] {
                let mut s = form.to_vec();
                s[i] = c;
                bases.push(s);
            }
        }
        for i in 0..=form.len() {
            for c in [b'X', b'_', b'0', long[i.min(long.len() - 1)]] {
                let mut s = form.to_vec();
                s.insert(i, c);
                bases.push(s);
            }
        }
    }
    bases.sort();
    bases.dedup();
    let mut out = vec![];
    for b in bases {
        if b.is_empty() {
            continue;
        }
        // case patterns: all 2^len for short bases, structured patterns for long ones
        let nl = b.iter().filter(|c| c.is_ascii_alphabetic()).count();
        let patterns: Vec<u32> = if nl <= 6 {
            (0..(1u32 << nl)).collect()
        } else {
            let full = (1u32 << nl) - 1;
            let mut p = vec![0, full, 0x5555_5555 & full, 0xAAAA_AAAA & full, (1 << (nl / 2)) - 1];
            for i in 0..nl {
                p.push(1 << i);
                p.push(full ^ (1 << i));
            }
            p
        };
        for pat in patterns {
            let mut s = b.clone();
            let mut k = 0;
            for c in s.iter_mut() {
                if c.is_ascii_alphabetic() {
                    *c = if pat & (1 << k) != 0 { c.to_ascii_uppercase() } else { c.to_ascii_lowercase() };
                    k += 1;
                }
            }
            for suf in [
                "", "0", "1", "01", "2", "10", "11", "12", "125", "255", "256", "257", "258", "268", "381", "65535", "65536", "65537", "65538", "65548", "131073", "4294967296", "4294967297", "4294967298",
                "18446744073709551616", "18446744073709551617", "18446744073709551618", "18446744073709551628",
            ] {
                let mut c = s.clone();
                c.extend_from_slice(suf.as_bytes());
                if c.len() <= 40 {
                    out.push(c);
                }
            }
            // neighbours of the definition's own suffix: drop / change leading digits, truncate, extend
            if let Some((_, _, dsuf)) = split_def(def) {
                if !dsuf.is_empty() {
                    let d = dsuf.to_vec();
                    let mut vars: Vec<Vec<u8>> = vec![d[1..].to_vec(), d[..d.len() - 1].to_vec(), [d.as_slice(), b"0"].concat(), [b"1".as_slice(), &d].concat(), [b"2".as_slice(), &d[1..]].concat(), [b"9".as_slice(), &d[1..]].concat()];
                    if d.len() >= 2 {
                        vars.push(d[..d.len() - 2].to_vec());
                        vars.push(d[2..].to_vec());
                        let mut x = d.clone();
                        let n = x.len();
                        x[n - 1] = if x[n - 1] == b'9' { b'8' } else { x[n - 1] + 1 };
                        vars.push(x);
                        let mut y = d.clone();
                        y[0] = if y[0] == b'9' { b'8' } else { y[0] + 1 };
                        vars.push(y);
                    }
                    for v in vars {
                        let mut c = s.clone();
                        c.extend_from_slice(&v);
                        out.push(c);
                    }
                }
            }
        }
    }
    out.sort();
    out.dedup();
    out
}

pub fn run(ctx: &'static Ctx) -> i32 {
    if let Err(e) = self_check() {
        engine_failure(&e);
    }
    let (max_s, max_t, max_c) = ctx.tier.pick((3, 2, 5), (4, 3, 6));
    let defs: Vec<&'static [u8]> = defs(max_s, max_t)
        .into_iter()
        .map(|d| &*Box::leak(d.into_boxed_slice()))
        .collect();
    let calpha: &[u8] = b"aAbB120_";
    let ncand = count_upto(calpha.len() as u64, max_c);
    let total = defs.len() as u64 * ncand;

    let accs = par_sweep(
        ctx,
        total,
        SweepOpts {
            name: "C03 grid",
            chunk: 1 << 16,
            hang_secs: 30,
        },
        Acc::default,
        |idx, acc: &mut Acc| {
            let d = defs[(idx / ncand) as usize];
            let mut buf = [0u8; 8];
            let l = nth_string(calpha, idx % ncand, &mut buf);
            let cand = &buf[..l];
            acc.evals += 1;
            match ref_match(d, cand) {
                Some(true) => acc.matches += 1,
                None => acc.unspecified += 1,
                _ => {}
            }
            if near(d, cand) {
                acc.near += 1;
            }
            if let Some((key, what)) = check_pair(d, cand) {
                ctx.violation(idx, &key, &what, json!({"kind": "pair", "def": esc(d), "cand": esc(cand)}));
            }
        },
        |idx| json!({"kind": "pair-index", "index": idx}),
    );
    let mut acc = Acc::default();
    for a in accs {
        acc.evals += a.evals;
        acc.matches += a.matches;
        acc.near += a.near;
        acc.unspecified += a.unspecified;
    }

    // real mnemonics x neighbourhood
    let mut real_pairs = 0u64;
    let mut real_matches = 0u64;
    let mut real_near = 0u64;
    let mut samples = Samples::new(8);
    for (di, d) in REAL_MNEMONICS.iter().enumerate() {
        let d: &'static [u8] = d.as_bytes();
        let mut cands = neighbourhood(d);
        // plus every other real mnemonic in both forms
        for o in REAL_MNEMONICS {
            cands.push(o.as_bytes().to_vec());
            cands.push(o.as_bytes().iter().cloned().filter(|c| !c.is_ascii_lowercase()).collect());
        }
        for (ci, c) in cands.iter().enumerate() {
            real_pairs += 1;
            if ref_match(d, c) == Some(true) {
                real_matches += 1;
                if samples.items.len() < 4 && ci % 7 == 0 {
                    samples.push(json!({"def": esc(d), "cand": esc(c), "reference": "match", "impl": mnemonic_match(d, c)}));
                }
            }
            if near(d, c) {
                real_near += 1;
            }
            if let Some((key, what)) = check_pair(d, c) {
                ctx.violation(total + (di * 100000 + ci) as u64, &key, &what, json!({"kind": "pair", "def": esc(d), "cand": esc(c)}));
            }
        }
    }
    // the same pairs through a real command tree: a one-leaf tree defined with the mnemonic, the
    // candidate sent as a program header; the handler runs iff the reference says "match"
    let mut tree_runs = 0u64;
    for (di, d) in REAL_MNEMONICS.iter().enumerate() {
        use crate::rig::{run_vec, RigDev, SharedTree, TreeSpec};
        if d.len() > 12 {
            continue;
        }
        let spec = TreeSpec::root(vec![TreeSpec::leaf(d, 0)]);
        let shared = SharedTree::of(&spec);
        let db: &'static [u8] = d.as_bytes();
        for (ci, c) in neighbourhood(db).iter().enumerate() {
            if c.is_empty() || c.len() > 12 || !c[0].is_ascii_alphabetic() || !c.iter().all(|x| x.is_ascii_alphanumeric() || *x == b'_') {
                continue;
            }
            let want = match ref_match(db, c) {
                Some(w) => w,
                None => continue,
            };
            tree_runs += 1;
            let mut dev = RigDev::new();
            let mut out = Vec::new();
            let r = match guarded(|| run_vec(shared.node(), &mut dev, c, &mut out)) {
                Ok(r) => r,
                Err(p) => {
                    ctx.violation(total + (di * 100000 + ci) as u64, "panic", &format!("tree {{{d}}}: `{}` panicked: {p}", esc(c)), json!({"kind": "tree", "def": d, "cand": esc(c)}));
                    continue;
                }
            };
            let invoked = !dev.calls.is_empty();
            if invoked != want || r.is_ok() != want {
                let key = if want { "tree-rejects-valid-form" } else { "tree-accepts-invalid-form" };
                ctx.violation(total + (di * 100000 + ci) as u64, key, &format!("tree with the single node `{d}`: header `{}` -> handler invoked = {invoked}, result {:?}; the reference matcher says match = {want}", esc(c), r.err().map(|e| e.get_code())), json!({"kind": "tree", "def": d, "cand": esc(c)}));
            }
        }
    }
    samples.push(json!({"def": "TRIGger", "cand": "TRIGG", "reference": "no match", "impl": mnemonic_match(b"TRIGger", b"TRIGG")}));
    samples.push(json!({"def": "ABab2", "cand": "ab2", "reference": format!("{:?}", ref_match(b"ABab2", b"ab2")), "impl": mnemonic_match(b"ABab2", b"ab2")}));

    let mut c = cov();
    c.insert("evaluations".into(), json!(acc.evals + real_pairs + tree_runs));
    c.insert("headers_through_a_tree".into(), json!(tree_runs));
    c.insert("distinct_nontrivial".into(), json!(acc.near + real_near));
    c.insert("rule".into(), json!(format!("every definition S.t.n (S in {{A,B}}^1..{max_s}, t in {{a,b}}^0..{max_t}, n in {{'',1,2,12,01,0}}) x every candidate in {{a,A,b,B,1,2,0,_}}^<={max_c}; plus {} real SCPI mnemonics (incl. 12-character and suffixed ones) x their neighbourhood (all prefixes, single-character edits, case patterns, suffix variants, all other mnemonics); each pair through mnemonic_match, Token::match_program_header (both token kinds) and, for suffix-less definitions, mnemonic_compare, against the independent matcher; and every real mnemonic as the single node of a command tree with each candidate of its neighbourhood sent as a program header (handler runs iff the reference matches); distinct non-trivial = pairs whose candidate alphabetic part is a non-empty case-insensitive prefix of the long form (short form, long form, partial long forms, under-length abbreviations)", REAL_MNEMONICS.len())));
    c.insert("exhaustive".into(), json!(true));
    c.insert("definitions".into(), json!(defs.len() + REAL_MNEMONICS.len()));
    c.insert("reference_matches".into(), json!(acc.matches + real_matches));
    c.insert("unspecified_pairs_leading_zero_suffix".into(), json!(acc.unspecified));
    c.insert("samples".into(), Value::Array(samples.items));
    ctx.finish(
        "exploration",
        c,
        vec![
            "a numeric suffix with leading zeros (`TRIG01`) is outside what the property pins and is not judged".into(),
            "definitions are of SCPI shape [A-Z]+[a-z]*[0-9]*".into(),
        ],
    )
}

pub fn replay(case: &Value) -> Result<String, String> {
    let def: &'static [u8] = Box::leak(unesc(case["def"].as_str().unwrap_or("")).into_boxed_slice());
    let cand = unesc(case["cand"].as_str().unwrap_or(""));
    if case["kind"] == "tree" {
        use crate::rig::{run_vec, RigDev, TreeSpec};
        let d = std::str::from_utf8(def).unwrap_or("");
        let spec = TreeSpec::root(vec![TreeSpec::leaf(d, 0)]);
        let mut dev = RigDev::new();
        let mut out = Vec::new();
        let r = guarded(|| run_vec(spec.build(), &mut dev, &cand, &mut out))?;
        let want = ref_match(def, &cand);
        let invoked = !dev.calls.is_empty();
        return if Some(invoked) == want && Some(r.is_ok()) == want { Ok(format!("invoked={invoked}")) } else { Err(format!("tree: invoked={invoked}, result ok={}, reference {:?}", r.is_ok(), want)) };
    }
    match check_pair(def, &cand) {
        Some((k, w)) => Err(format!("{k}: {w}")),
        None => Ok(format!("mnemonic_match={}", mnemonic_match(def, &cand))),
    }
}
