//! C11 – fixed-capacity, allocation-free operation: overflow is an error, never a panic.
//! Fault enumeration: for every message, every buffer capacity from 0 to beyond the full response
//! (so that exhaustion strikes at every write), plus allocation counting on every run.

use crate::alloccount::{counted, self_check};
use crate::core::*;
use crate::props::c10::*;
use crate::rig::*;
use arrayvec::ArrayVec;
use scpi::tree::prelude::*;
use serde_json::{json, Value};

pub struct CapRun {
    pub result: Result<(), i16>,
    pub bytes: Vec<u8>,
    pub allocs: u64,
    pub handle_error_calls: Vec<i16>,
}

fn run_cap<const N: usize>(tree: &'static Node<'static, RigDev>, dev: &mut RigDev, msg: &[u8]) -> Result<CapRun, String> {
    let mut buf: ArrayVec<u8, N> = ArrayVec::new();
    dev.reset_obs(msg);
    let mut ctx = Context::default();
    let (r, allocs) = counted(|| guarded(|| tree.run(msg, dev, &mut ctx, &mut buf)));
    let r = r?;
    Ok(CapRun {
        result: r.map_err(|e| e.get_code()),
        bytes: buf.to_vec(),
        allocs,
        handle_error_calls: dev.errors.iter().map(|e| e.get_code()).collect(),
    })
}

pub fn run_with_cap(cap: usize, tree: &'static Node<'static, RigDev>, dev: &mut RigDev, msg: &[u8]) -> Result<CapRun, String> {
    with_cap!(cap, run_cap(tree, dev, msg))
}

/// Check one message at every capacity. Returns number of capacity runs.
pub fn check_all_caps(ctx: &Ctx, order: u64, tree: &'static Node<'static, RigDev>, dev: &mut RigDev, msg: &[u8], exhausted: &mut u64) -> u64 {
    let mut full: Vec<u8> = Vec::new();
    let r = guarded(|| run_vec(tree, dev, msg, &mut full));
    match r {
        Ok(Ok(())) => {}
        Ok(Err(e)) => {
            ctx.violation(order, "unexpected-error", &format!("`{}` failed with {} on a growable buffer", esc(msg), e.get_code()), json!({"kind": "cap", "message": esc(msg), "cap": -1}));
            return 0;
        }
        Err(p) => {
            ctx.violation(order, "panic", &format!("`{}` panicked: {p}", esc(msg)), json!({"kind": "cap", "message": esc(msg), "cap": -1}));
            return 0;
        }
    }
    let mut runs = 0;
    let top = (full.len() + 2).min(crate::capdispatch::MAX_CAP);
    for cap in 0..=top {
        runs += 1;
        let case = json!({"kind": "cap", "message": esc(msg), "cap": cap});
        match run_with_cap(cap, tree, dev, msg) {
            Err(p) => {
                ctx.violation(order, "panic", &format!("`{}` with capacity {cap} panicked: {p}", esc(msg)), case);
            }
            Ok(cr) => {
                if cr.allocs != 0 {
                    ctx.violation(order, "allocation", &format!("`{}` with capacity {cap}: {} allocator calls during Node::run", esc(msg), cr.allocs), case.clone());
                }
                if cap >= full.len() {
                    if cr.result != Ok(()) || cr.bytes != full {
                        ctx.violation(
                            order,
                            "fits-but-differs",
                            &format!("`{}` with capacity {cap} >= {}: {:?} `{}`, growable buffer gave `{}`", esc(msg), full.len(), cr.result, esc(&cr.bytes), esc(&full)),
                            case,
                        );
                    }
                } else {
                    *exhausted += 1;
                    if cr.result != Err(-225) {
                        let key = if cr.result.is_ok() { "silent-truncation" } else { "wrong-error" };
                        ctx.violation(
                            order,
                            key,
                            &format!("`{}` with capacity {cap} < {}: returned {:?} (buffer `{}`), expected -225 Out of memory", esc(msg), full.len(), cr.result, esc(&cr.bytes)),
                            case,
                        );
                    } else if cr.handle_error_calls != vec![-225] {
                        ctx.violation(order, "error-hook", &format!("`{}` with capacity {cap}: handle_error calls {:?}", esc(msg), cr.handle_error_calls), case);
                    }
                    // (what the buffer holds after a failed message is not pinned by the property)
                }
            }
        }
    }
    runs
}

fn type_family() -> Vec<&'static str> {
    vec![":QLQ?", "QON?;:QLQ?;QON?", ":QNL?", ":QFL?", ":QERR?", ":QLON?", "QTHR?", "qhh?", "QHDR?", ":BR?", "*CQ?", ":QLON?;:QLON?", ":QFL?;:QERR?;:QLON?\n"]
}

pub fn run(ctx: &'static Ctx) -> i32 {
    if !self_check() {
        engine_failure("allocation counter self-check failed");
    }
    let spec = framing_tree();
    let shared = SharedTree::of(&spec);
    let ks = kinds(true);
    let max_units = ctx.tier.pick(3, 5);
    let space = Space::new(ks.len(), max_units);
    // (the `QLV` unit answers with a `Vec` list, i.e. its handler allocates by design: not for this check)
    let mut extras: Vec<Vec<u8>> = enumerate(&ks, 0, false).into_iter().map(|m| m.text).filter(|t| !t.windows(3).any(|w| w == b"QLV")).collect();
    for t in type_family() {
        extras.push(t.as_bytes().to_vec());
    }
    let total = space.total() + extras.len() as u64;
    let msg_at = |i: u64| -> Option<Vec<u8>> {
        if i < space.total() {
            let (seq, sep, e) = space.decode(i);
            build(&ks, &seq, sep, e).map(|m| m.text)
        } else {
            Some(extras[(i - space.total()) as usize].clone())
        }
    };
    struct Acc {
        msgs: u64,
        runs: u64,
        exhausted: u64,
    }
    let accs = par_sweep(
        ctx,
        total,
        SweepOpts {
            name: "C11 capacity sweep",
            chunk: 256,
            hang_secs: 60,
        },
        || Acc { msgs: 0, runs: 0, exhausted: 0 },
        |i, acc: &mut Acc| {
            let msg = match msg_at(i) {
                Some(m) => m,
                None => return,
            };
            acc.msgs += 1;
            let mut dev = RigDev::new();
            framing_plans(&mut dev);
            acc.runs += check_all_caps(ctx, i, shared.node(), &mut dev, &msg, &mut acc.exhausted);
        },
        |i| json!({"kind": "cap", "message": esc(&msg_at(i).unwrap_or_default()), "cap": -1}),
    );
    let mut nmsgs = 0;
    let mut runs = 0;
    let mut exhausted = 0;
    for a in accs {
        runs += a.runs;
        nmsgs += a.msgs;
        exhausted += a.exhausted;
    }

    // allocation counting over error paths: every string in Sigma^<=n on a pull-everything plan
    let alpha: &[u8] = b"AE1 :;,?*#\"'(.+-@\n\x80";
    let n = ctx.tier.pick(3, 5);
    let tot2 = count_upto(alpha.len() as u64, n);
    let spec2 = TreeSpec::root(vec![
        TreeSpec::leaf("A", 0),
        TreeSpec::branch("E", vec![TreeSpec::dleaf("A", 1), TreeSpec::leaf("E1", 2)]),
        TreeSpec::leaf("*A", 3),
    ]);
    let shared2 = SharedTree::of(&spec2);
    let accs2 = par_sweep(
        ctx,
        tot2,
        SweepOpts {
            name: "C11 allocation sweep",
            chunk: 4096,
            hang_secs: 30,
        },
        || (0u64, 0u64),
        |i, acc: &mut (u64, u64)| {
            let mut buf = [0u8; 8];
            let l = nth_string(alpha, i, &mut buf);
            let msg = &buf[..l];
            let mut dev = RigDev::with_plan(Plan {
                opt: 3,
                convert: true,
                resp: &[Item::I64(1), Item::Str(b"x")],
                ..Plan::NOP
            });
            acc.0 += 1;
            match run_with_cap(8, shared2.node(), &mut dev, msg) {
                Ok(cr) => {
                    if cr.result.is_err() {
                        acc.1 += 1;
                    }
                    if cr.allocs != 0 {
                        ctx.violation(total + i, "allocation", &format!("`{}`: {} allocator calls during Node::run (result {:?})", esc(msg), cr.allocs, cr.result), json!({"kind": "alloc", "message": esc(msg)}));
                    }
                }
                Err(_) => { /* panics are C01's business */ }
            }
        },
        |i| json!({"kind": "alloc-index", "index": i}),
    );
    let mut alloc_runs = 0;
    let mut alloc_err_runs = 0;
    for a in accs2 {
        alloc_runs += a.0;
        alloc_err_runs += a.1;
    }

    let mut c = cov();
    c.insert("evaluations".into(), json!(runs + alloc_runs));
    c.insert("distinct_nontrivial".into(), json!(exhausted));
    c.insert("rule".into(), json!(format!("fault enumeration: {} messages (all sequences of 1..{max_units} units over the C10 unit kinds x separators x endings, plus queries returning every formattable type family: block headers, doubled quotes, error items, 64-bit integers, floats incl. NaN/inf sentinels, expression, character, utf8 block) x every ArrayVec<u8,CAP> capacity 0..=|R|+2 where R is the growable-buffer response; CAP >= |R| must give Ok and identical bytes, CAP < |R| must give -225 with exactly one handle_error(-225) (the buffer content after a failure is not pinned); the harness's counting global allocator is armed around every Node::run (non-allocating rig handlers, ArrayVec logs); plus allocation counting over all {} strings of length <= {n} over a {}-symbol lexical alphabet with a pull-and-convert-everything plan ({} of them fail). Distinct non-trivial = (message, capacity) pairs with CAP < |R|, each a distinct exhaustion point", nmsgs, tot2, alpha.len(), alloc_err_runs)));
    c.insert("exhaustive".into(), json!(true));
    c.insert("messages".into(), json!(nmsgs));
    c.insert("capacity_runs".into(), json!(runs));
    c.insert("exhaustion_points".into(), json!(exhausted));
    c.insert("allocation_counted_runs".into(), json!(runs + alloc_runs));
    c.insert("samples".into(), json!([
        {"message": ":QLON?", "capacities": "0..=|R|+2", "expect": "CAP<|R| -> -225, else identical bytes"},
        {"message": esc(&msg_at(space.total() / 2 + 1).or(msg_at(0)).unwrap_or_default()), "capacities": "0..=|R|+2"}
    ]));
    ctx.finish(
        "fault_enumeration",
        c,
        vec![
            "a third-party Formatter cannot build a ResponseUnit (private fields), so write faults are injected by sweeping ArrayVec capacities: every write of >= 1 byte is the first failing write for some capacity".into(),
            "allocation is counted on the executing thread by a counting #[global_allocator]; self-checked to see a Vec allocation".into(),
        ],
    )
}

pub fn replay(case: &Value) -> Result<String, String> {
    let spec = framing_tree();
    let tree = spec.build();
    let mut dev = RigDev::new();
    framing_plans(&mut dev);
    let msg = unesc(case["message"].as_str().unwrap_or(""));
    if case["kind"] == "alloc" {
        let spec2 = TreeSpec::root(vec![
            TreeSpec::leaf("A", 0),
            TreeSpec::branch("E", vec![TreeSpec::dleaf("A", 1), TreeSpec::leaf("E1", 2)]),
            TreeSpec::leaf("*A", 3),
        ]);
        let mut dev = RigDev::with_plan(Plan {
            opt: 3,
            convert: true,
            resp: &[Item::I64(1), Item::Str(b"x")],
            ..Plan::NOP
        });
        let cr = run_with_cap(8, spec2.build(), &mut dev, &msg)?;
        return if cr.allocs != 0 { Err(format!("allocation: {} allocator calls", cr.allocs)) } else { Ok("no allocation".into()) };
    }
    let mut full = Vec::new();
    let r = run_vec(tree, &mut dev, &msg, &mut full);
    if r.is_err() {
        return Err("unexpected-error on growable buffer".into());
    }
    let cap = case["cap"].as_i64().unwrap_or(0).max(0) as usize;
    let cr = run_with_cap(cap, tree, &mut dev, &msg)?;
    if cr.allocs != 0 {
        return Err(format!("allocation: {} allocator calls", cr.allocs));
    }
    if cap >= full.len() {
        if cr.result != Ok(()) || cr.bytes != full {
            return Err(format!("fits-but-differs: {:?} `{}`", cr.result, esc(&cr.bytes)));
        }
    } else if cr.result != Err(-225) || cr.handle_error_calls != vec![-225] {
        return Err(format!("capacity {cap} < {}: returned {:?}, handle_error {:?}", full.len(), cr.result, cr.handle_error_calls));
    }
    Ok(format!("cap {cap}: {:?}", cr.result))
}
