//! C08 – float, boolean and keyword parameters convert to the exact denoted value; every
//! conversion accepts only the element types documented for its target.

use crate::core::*;
use crate::props::c07::literal_grammar;
use crate::refmodel::decnum::*;
use crate::refmodel::mnemonic::ref_compare_keyword;
use crate::rig::RigEnum;
use scpi::parser::expression::channel_list::ChannelList;
use scpi::parser::expression::numeric_list::NumericList;
use scpi::parser::format::{Arbitrary, Character, Expression};
use scpi::parser::suffix::{Amplitude, Db};
use scpi::parser::tokenizer::{Token, Tokenizer};
use scpi::units::uom::si::f64 as q64;
use scpi::units::*;
use scpi_contrib::scpi1999::NumericValue;
use serde_json::{json, Value};

fn conv_f32(lit: &[u8]) -> Result<f32, i16> {
    f32::try_from(Token::DecimalNumericProgramData(lit)).map_err(|e| e.get_code())
}
fn conv_f64(lit: &[u8]) -> Result<f64, i16> {
    f64::try_from(Token::DecimalNumericProgramData(lit)).map_err(|e| e.get_code())
}

/// Also through the tokenizer (`new_params`) so that the lexer's view of the literal is included.
fn conv_f64_lexed(lit: &[u8]) -> Option<Result<f64, i16>> {
    let mut t = Tokenizer::new_params(lit);
    match t.next()? {
        Ok(tok @ Token::DecimalNumericProgramData(_)) => Some(f64::try_from(tok).map_err(|e| e.get_code())),
        _ => None,
    }
}

fn bits_eq32(a: f32, b: f32) -> bool {
    a.to_bits() == b.to_bits() || (a == 0.0 && b == 0.0)
}
fn bits_eq64(a: f64, b: f64) -> bool {
    a.to_bits() == b.to_bits() || (a == 0.0 && b == 0.0)
}

/// Check one literal against Rust's correctly rounding parser.
fn check_float_literal(ctx: &Ctx, order: u64, lit: &str) -> bool {
    let want32: f32 = match lit.parse() {
        Ok(v) => v,
        Err(_) => return false,
    };
    let want64: f64 = lit.parse().unwrap();
    let case = json!({"kind": "float", "literal": lit});
    match guarded(|| conv_f32(lit.as_bytes())) {
        Ok(Ok(v)) if bits_eq32(v, want32) => {}
        Ok(other) => {
            let key = if want32.is_infinite() { "f32-overflow" } else { "f32-misrounded" };
            ctx.violation(order, key, &format!("`{lit}` as f32 = {:?} (bits {:?}), correctly rounded value is {want32:e} ({:#x})", other, other.ok().map(|v| format!("{:#x}", v.to_bits())), want32.to_bits()), case.clone());
        }
        Err(p) => {
            ctx.violation(order, "panic", &format!("`{lit}` as f32 panicked: {p}"), case.clone());
        }
    }
    match guarded(|| conv_f64(lit.as_bytes())) {
        Ok(Ok(v)) if bits_eq64(v, want64) => {}
        Ok(other) => {
            let key = if want64.is_infinite() { "f64-overflow" } else { "f64-misrounded" };
            ctx.violation(order, key, &format!("`{lit}` as f64 = {:?}, correctly rounded value is {want64:e} ({:#x})", other, want64.to_bits()), case.clone());
        }
        Err(p) => {
            ctx.violation(order, "panic", &format!("`{lit}` as f64 panicked: {p}"), case.clone());
        }
    }
    if let Some(r) = conv_f64_lexed(lit.as_bytes()) {
        if !matches!(r, Ok(v) if bits_eq64(v, want64)) {
            ctx.violation(order, "f64-lexed-differs", &format!("`{lit}` lexed and converted to f64 = {:?}, expected {want64:e}", r), case);
        }
    }
    true
}

const MANT_PATTERNS_24: &[u32] = &[
    0x000000, 0x000001, 0x000002, 0x7fffff, 0x7ffffe, 0x555555, 0x2aaaaa, 0x400000, 0x400001, 0x3fffff, 0x000100, 0x0000ff, 0x100000, 0x0fffff, 0x600000,
    0x123456, 0x7edcba, 0x000003, 0x7ffffd, 0x010101, 0x0f0f0f, 0x700000, 0x00ffff, 0x333333,
];

/// The first `n` mantissa patterns: the hand-picked ones, continued by the multiplicative sequence
/// j * 0x9E3779 mod 2^23 (a fixed enumeration that spreads over all bit positions).
fn mant_patterns(n: usize) -> Vec<u32> {
    let mut v: Vec<u32> = MANT_PATTERNS_24.iter().cloned().take(n).collect();
    let mut j = 1u32;
    while v.len() < n {
        let p = j.wrapping_mul(0x9E3779) & 0x7fffff;
        if !v.contains(&p) {
            v.push(p);
        }
        j += 1;
    }
    v
}

/// Halfway cases by construction. Returns number of cases.
fn halfway_f32(ctx: &Ctx, base: u64, exp_step: usize, npat: usize) -> u64 {
    let mut n = 0u64;
    let pats = mant_patterns(npat);
    for e in (0..=254u32).step_by(exp_step) {
        for &mp in &pats {
            let bits = (e << 23) | mp;
            let f = f32::from_bits(bits);
            let up = f32::from_bits(bits + 1);
            if !up.is_finite() && !f.is_finite() {
                continue;
            }
            // f = m * 2^x exactly
            let (m, x): (u128, i32) = if e == 0 { (mp as u128, -149) } else { ((mp | 0x800000) as u128, e as i32 - 150) };
            if m == 0 && e == 0 {
                // midpoint between 0 and the smallest subnormal
            }
            let mid = exact_decimal(2 * m + 1, x - 1);
            // round-half-even: the neighbour with even mantissa
            let even = if bits & 1 == 0 { f } else { up };
            let cases = [(mid.clone(), even), (nudge_last_digit(&mid, true), up), (nudge_last_digit(&mid, false), f)];
            for (lit, want) in cases {
                n += 1;
                for (s, w) in [(lit.clone(), want), (format!("-{lit}"), -want)] {
                    let std: f32 = s.parse().unwrap();
                    if !bits_eq32(std, w) {
                        engine_failure(&format!("halfway construction disagrees with core::str::parse for `{s}`: {std:e} vs {w:e}"));
                    }
                    match guarded(|| conv_f32(s.as_bytes())) {
                        Ok(Ok(v)) if bits_eq32(v, w) => {}
                        Ok(o) => {
                            ctx.violation(base + n, "f32-halfway-misrounded", &format!("`{s}` (halfway case at bits {bits:#x}) as f32 = {:?}, must be {w:e} ({:#x})", o, w.to_bits()), json!({"kind": "float", "literal": s}));
                        }
                        Err(p) => {
                            ctx.violation(base + n, "panic", &format!("`{s}` as f32 panicked: {p}"), json!({"kind": "float", "literal": s}));
                        }
                    }
                }
            }
        }
    }
    n
}

fn halfway_f64(ctx: &Ctx, base: u64, exp_step: usize, npat: usize) -> u64 {
    let mut n = 0u64;
    let pats = mant_patterns(npat);
    for e in (0..=2046u64).step_by(exp_step) {
        for &mp24 in &pats {
            // spread the 24-bit pattern over 52 bits
            let mp: u64 = ((mp24 as u64) << 29) | ((mp24 as u64) << 5 & 0x1fff_ffff) | (mp24 as u64 & 1);
            let mp = mp & 0x000f_ffff_ffff_ffff;
            let bits = (e << 52) | mp;
            let f = f64::from_bits(bits);
            let up = f64::from_bits(bits + 1);
            let (m, x): (u128, i32) = if e == 0 { (mp as u128, -1074) } else { ((mp | (1u64 << 52)) as u128, e as i32 - 1075) };
            let mid = exact_decimal(2 * m + 1, x - 1);
            let even = if bits & 1 == 0 { f } else { up };
            let cases = [(mid.clone(), even), (nudge_last_digit(&mid, true), up), (nudge_last_digit(&mid, false), f)];
            for (lit, want) in cases {
                n += 1;
                let std: f64 = lit.parse().unwrap();
                if !bits_eq64(std, want) {
                    engine_failure(&format!("halfway construction disagrees with core::str::parse for a {}-digit literal at bits {bits:#x}", lit.len()));
                }
                match guarded(|| conv_f64(lit.as_bytes())) {
                    Ok(Ok(v)) if bits_eq64(v, want) => {}
                    Ok(o) => {
                        ctx.violation(base + n, "f64-halfway-misrounded", &format!("{}-digit halfway literal at bits {bits:#x} as f64 = {:?}, must be {want:e}", lit.len(), o), json!({"kind": "float", "literal": lit}));
                    }
                    Err(p) => {
                        ctx.violation(base + n, "panic", &format!("halfway literal as f64 panicked: {p}"), json!({"kind": "float", "literal": lit}));
                    }
                }
            }
        }
    }
    n
}

// ---------------------------------------------------------------------------------------
// keywords

fn all_case_patterns(s: &str) -> Vec<Vec<u8>> {
    let b = s.as_bytes();
    let n = b.len();
    let mut out = vec![];
    let pats: Vec<u32> = if n <= 5 { (0..(1u32 << n)).collect() } else { vec![0, (1 << n) - 1, 0x55555555 & ((1 << n) - 1), 0xaaaaaaaa & ((1 << n) - 1), 1, 1 << (n - 1), 0b111] };
    for p in pats {
        out.push(b.iter().enumerate().map(|(i, c)| if p & (1 << i) != 0 { c.to_ascii_uppercase() } else { c.to_ascii_lowercase() }).collect());
    }
    out
}

fn keyword_check(ctx: &Ctx, base: u64) -> u64 {
    let mut n = 0;
    let kws: [(&str, u8); 5] = [("INFinity", 0), ("NINFinity", 1), ("NAN", 2), ("MAXimum", 3), ("MINimum", 4)];
    // candidate spellings: both forms in all case patterns, every prefix, plus near misses
    let mut cands: Vec<Vec<u8>> = vec![];
    for (k, _) in kws {
        let short: String = k.chars().filter(|c| c.is_ascii_uppercase()).collect();
        cands.extend(all_case_patterns(&short));
        cands.extend(all_case_patterns(k));
        for l in 1..=k.len() {
            cands.push(k.as_bytes()[..l].to_vec());
        }
        for extra in ["1", "2", "X", "_"] {
            cands.push(format!("{short}{extra}").into_bytes());
            cands.push(format!("{k}{extra}").into_bytes());
        }
    }
    for c in ["INFINIT", "NINFINIT", "NA", "NANN", "MAXIMU", "MINIMU", "IN", "NIN", "INFF", "DEF", "UP", "ON", "ABC"] {
        cands.push(c.as_bytes().to_vec());
    }
    cands.sort();
    cands.dedup();
    for c in &cands {
        n += 1;
        let which: Vec<u8> = kws.iter().filter(|(k, _)| ref_compare_keyword(k.as_bytes(), c) == Some(true)).map(|x| x.1).collect();
        let tok = Token::CharacterProgramData(c);
        let g32 = f32::try_from(tok).map_err(|e| e.get_code());
        let g64 = f64::try_from(tok).map_err(|e| e.get_code());
        let case = json!({"kind": "keyword", "text": esc(c)});
        match which.first() {
            Some(w) => {
                let (w32, w64) = match w {
                    0 => (f32::INFINITY, f64::INFINITY),
                    1 => (f32::NEG_INFINITY, f64::NEG_INFINITY),
                    2 => (f32::NAN, f64::NAN),
                    3 => (f32::MAX, f64::MAX),
                    _ => (f32::MIN, f64::MIN),
                };
                let ok32 = matches!(g32, Ok(v) if (v.is_nan() && w32.is_nan()) || v.to_bits() == w32.to_bits());
                let ok64 = matches!(g64, Ok(v) if (v.is_nan() && w64.is_nan()) || v.to_bits() == w64.to_bits());
                if !ok32 || !ok64 {
                    ctx.violation(base + n, "keyword-wrong-value", &format!("`{}` as float = {:?} / {:?}, expected {w32:e}", esc(c), g32, g64), case);
                }
            }
            None => {
                let bad = |r: &Result<i16, i16>| !matches!(r, Err(c) if (-199..=-100).contains(c));
                let r32 = g32.map(|_| 0i16);
                let r64 = g64.map(|_| 0i16);
                if bad(&r32) || bad(&r64) {
                    ctx.violation(base + n, "keyword-near-miss-accepted", &format!("`{}` is not a float keyword but converts to {:?} / {:?}", esc(c), g32, g64), case);
                }
            }
        }
    }
    n
}

// ---------------------------------------------------------------------------------------
// booleans

fn bool_check(ctx: &Ctx, base: u64) -> u64 {
    let mut n = 0;
    let mut chr: Vec<(Vec<u8>, Option<bool>)> = vec![];
    for c in all_case_patterns("ON") {
        chr.push((c, Some(true)));
    }
    for c in all_case_patterns("OFF") {
        chr.push((c, Some(false)));
    }
    for c in ["O", "ONN", "OF", "OFFF", "ON1", "OFF0", "TRUE", "FALSE", "YES", "N", "ONCE", "MAX", "MIN", "DEF"] {
        chr.push((c.as_bytes().to_vec(), None));
    }
    for (c, want) in &chr {
        n += 1;
        let g = bool::try_from(Token::CharacterProgramData(c)).map_err(|e| e.get_code());
        let ok = match want {
            Some(b) => g == Ok(*b),
            None => matches!(g, Err(c) if c < 0),
        };
        if !ok {
            ctx.violation(base + n, "bool-keyword", &format!("`{}` as bool = {:?}, expected {:?}", esc(c), g, want), json!({"kind": "bool-chr", "text": esc(c)}));
        }
    }
    for lit in ["1", "0", "00", "0.0", "-0", "+1", "0.4", "0.6", "-0.6", "-0.4", "2", "255", "1e30", "1E-30", "-1e30", "1e400", "1e-400", ".4999", "0.49999999", "4.9999999e-1", "-.4999999999999", "0.50000001", "0.51", "-2.5", "+0E5", "9223372036854775808", "-9223372036854775809"] {
        n += 1;
        let g = bool::try_from(Token::DecimalNumericProgramData(lit.as_bytes())).map_err(|e| e.get_code());
        if let Some((k, w)) = crate::props::c07::judge_bool(lit.as_bytes(), &g) {
            ctx.violation(base + n, &k, &w, json!({"kind": "bool-num", "text": lit}));
        }
    }
    n
}

// ---------------------------------------------------------------------------------------
// type matrix

#[derive(Clone, Copy, Debug, PartialEq)]
enum Ex {
    /// must produce a value
    Value,
    /// must be an error in -100..-199
    CmdErr,
    /// must be an error (any class): right element type, value not in the allowed set
    AnyErr,
}

struct Elem {
    name: &'static str,
    text: &'static [u8],
}
const ELEMS: &[Elem] = &[
    Elem { name: "character", text: b"ABC" },
    Elem { name: "decimal", text: b"42" },
    Elem { name: "decimal+suffix", text: b"42 V" },
    Elem { name: "nondecimal", text: b"#H2A" },
    Elem { name: "string", text: b"\"42\"" },
    Elem { name: "block", text: b"#1242" },
    Elem { name: "expression", text: b"(1,2)" },
    Elem { name: "channel-expression", text: b"(@1,2)" },
];

/// Device of the message-path type matrix: records what the handler's typed accessor returned.
pub struct MatDev {
    pub optional: bool,
    /// 0 handler not entered, 1 value, 2 reported absent, 3 error
    pub seen: u8,
    pub hook: u32,
}
impl scpi::Device for MatDev {
    fn handle_error(&mut self, _e: scpi::error::Error) {
        self.hook += 1;
    }
}

fn lex_one(text: &[u8]) -> Token<'_> {
    let mut t = Tokenizer::new_params(text);
    match t.next() {
        Some(Ok(tok)) => tok,
        // the library's lexer fails on a plain element: hand on something no conversion accepts, the
        // matrix then reports the pair
        _ => Token::ProgramDataSeparator,
    }
}

fn type_matrix(ctx: &Ctx, base: u64) -> u64 {
    use Ex::*;
    let mut n = 0u64;
    macro_rules! row {
        ($name:expr, $ty:ty, $exp:expr) => {{
            let exp: [Ex; 8] = $exp;
            for (i, e) in ELEMS.iter().enumerate() {
                n += 1;
                let tok = lex_one(e.text);
                let r = guarded(|| <$ty>::try_from(tok).map(|_| ()).map_err(|e| e.get_code()));
                let case = json!({"kind": "matrix", "target": $name, "element": e.name});
                match r {
                    Err(p) => {
                        ctx.violation(base + n, "panic", &format!("{} from {} panicked: {p}", $name, e.name), case);
                    }
                    Ok(g) => {
                        let ok = match exp[i] {
                            Value => g.is_ok(),
                            CmdErr => matches!(g, Err(c) if (-199..=-100).contains(&c)),
                            AnyErr => matches!(g, Err(c) if c < 0),
                        };
                        if !ok {
                            let key = match (exp[i], &g) {
                                (Value, _) => "documented-type-rejected",
                                (_, Ok(())) => "undocumented-type-accepted",
                                _ => "wrong-error-class",
                            };
                            ctx.violation(base + n, key, &format!("{} from {} element `{}`: {:?}, expected {:?}", $name, e.name, esc(e.text), g, exp[i]), case.clone());
                        }
                        // the same pair through a real message, with the required and with the optional
                        // typed accessor: the element is present, so it must be offered to the conversion
                        // (same verdict as the direct conversion) and never be reported absent
                        for optional in [false, true] {
                            n += 1;
                            struct Hm;
                            impl scpi::tree::prelude::Command<MatDev> for Hm {
                                fn event(&self, dev: &mut MatDev, _c: &mut scpi::tree::prelude::Context, mut params: scpi::parser::parameters::Parameters) -> scpi::error::Result<()> {
                                    if dev.optional {
                                        match params.next_optional_data::<$ty>() {
                                            Ok(Some(_)) => dev.seen = 1,
                                            Ok(None) => dev.seen = 2,
                                            Err(e) => {
                                                dev.seen = 3;
                                                return Err(e);
                                            }
                                        }
                                    } else {
                                        match params.next_data::<$ty>() {
                                            Ok(_) => dev.seen = 1,
                                            Err(e) => {
                                                dev.seen = 3;
                                                return Err(e);
                                            }
                                        }
                                    }
                                    Ok(())
                                }
                            }
                            static HM: Hm = Hm;
                            let leaves = [scpi::tree::Node::Leaf { name: b"T", default: false, handler: &HM }];
                            let tree = scpi::tree::Node::Branch { name: b"", default: false, sub: &leaves };
                            let mut msg = b"T ".to_vec();
                            msg.extend_from_slice(e.text);
                            let mut dev = MatDev { optional, seen: 0, hook: 0 };
                            let mut out: Vec<u8> = Vec::new();
                            let mut c = scpi::tree::prelude::Context::default();
                            let via = guarded(|| tree.run(&msg, &mut dev, &mut c, &mut out).map_err(|e| e.get_code()));
                            let acc = if optional { "next_optional_data" } else { "next_data" };
                            match via {
                                Err(p) => {
                                    ctx.violation(base + n, "panic", &format!("`{}` with {acc}::<{}> panicked: {p}", esc(&msg), $name), case.clone());
                                }
                                Ok(v) => {
                                    let agrees = match (&g, &v) {
                                        (Ok(()), Ok(())) => dev.seen == 1,
                                        (Err(a), Err(b)) => a / 100 == b / 100 && dev.seen == 3 && dev.hook == 1,
                                        _ => false,
                                    };
                                    if !agrees {
                                        let key = if dev.seen == 2 { "present-element-reported-absent" } else { "message-path-differs" };
                                        ctx.violation(base + n, key, &format!("`{}` with {acc}::<{}>: message result {:?}, accessor outcome {} (1 value, 2 absent, 3 error), error hook calls {}; direct conversion gives {:?}", esc(&msg), $name, v, dev.seen, dev.hook, g), case.clone());
                                    }
                                }
                            }
                        }
                    }
                }
            }
        }};
    }
    //                         chr     dec    dec+suf nondec  string  block   expr    chexpr
    const INT: [Ex; 8] = [CmdErr, Value, CmdErr, Value, CmdErr, CmdErr, CmdErr, CmdErr];
    const FLT: [Ex; 8] = [CmdErr, Value, CmdErr, CmdErr, CmdErr, CmdErr, CmdErr, CmdErr];
    row!("u8", u8, INT);
    row!("i8", i8, INT);
    row!("u16", u16, INT);
    row!("i16", i16, INT);
    row!("u32", u32, INT);
    row!("i32", i32, INT);
    row!("u64", u64, INT);
    row!("i64", i64, INT);
    row!("usize", usize, INT);
    row!("isize", isize, INT);
    row!("f32", f32, FLT);
    row!("f64", f64, FLT);
    row!("bool", bool, [AnyErr, Value, CmdErr, CmdErr, CmdErr, CmdErr, CmdErr, CmdErr]);
    row!("&[u8]", &[u8], [CmdErr, CmdErr, CmdErr, CmdErr, Value, CmdErr, CmdErr, CmdErr]);
    row!("&str", &str, [CmdErr, CmdErr, CmdErr, CmdErr, Value, Value, CmdErr, CmdErr]);
    row!("Arbitrary", Arbitrary, [CmdErr, CmdErr, CmdErr, CmdErr, CmdErr, Value, CmdErr, CmdErr]);
    row!("Character", Character, [Value, CmdErr, CmdErr, CmdErr, CmdErr, CmdErr, CmdErr, CmdErr]);
    row!("Expression", Expression, [CmdErr, CmdErr, CmdErr, CmdErr, CmdErr, CmdErr, Value, Value]);
    row!("NumericList", NumericList, [CmdErr, CmdErr, CmdErr, CmdErr, CmdErr, CmdErr, Value, Value]);
    row!("ChannelList", ChannelList, [CmdErr, CmdErr, CmdErr, CmdErr, CmdErr, CmdErr, CmdErr, Value]);
    row!("derived enum", RigEnum, [AnyErr, CmdErr, CmdErr, CmdErr, CmdErr, CmdErr, CmdErr, CmdErr]);
    row!("ElectricPotential<f32>", ElectricPotential, [CmdErr, Value, Value, CmdErr, CmdErr, CmdErr, CmdErr, CmdErr]);
    row!("Frequency<f64>", q64::Frequency, [CmdErr, Value, AnyErr, CmdErr, CmdErr, CmdErr, CmdErr, CmdErr]);
    row!("Amplitude<ElectricPotential>", Amplitude<ElectricPotential>, [CmdErr, Value, Value, CmdErr, CmdErr, CmdErr, CmdErr, CmdErr]);
    row!("Db<f32,ElectricPotential>", Db<f32, ElectricPotential>, [CmdErr, Value, Value, CmdErr, CmdErr, CmdErr, CmdErr, CmdErr]);
    row!("NumericValue<f32>", NumericValue<f32>, [CmdErr, Value, CmdErr, CmdErr, CmdErr, CmdErr, CmdErr, CmdErr]);
    row!("NumericValue<u8>", NumericValue<u8>, [CmdErr, Value, CmdErr, Value, CmdErr, CmdErr, CmdErr, CmdErr]);
    // denoted values of the accepting pairs
    let checks: Vec<(&str, bool)> = vec![
        ("u8 from 42", u8::try_from(lex_one(b"42")).ok() == Some(42)),
        ("u8 from #H2A", u8::try_from(lex_one(b"#H2A")).ok() == Some(42)),
        ("i16 from #Q52", i16::try_from(lex_one(b"#Q52")).ok() == Some(42)),
        ("f32 from 42", f32::try_from(lex_one(b"42")).ok() == Some(42.0)),
        ("f64 from -4.2E1", f64::try_from(lex_one(b"-4.2E1")).ok() == Some(-42.0)),
        ("&[u8] from \"42\"", <&[u8]>::try_from(lex_one(b"\"42\"")).ok() == Some(&b"42"[..])),
        ("&[u8] from 'a''b'", <&[u8]>::try_from(lex_one(b"'a''b'")).ok() == Some(&b"a''b"[..])),
        ("&str from #1242", <&str>::try_from(lex_one(b"#1242")).ok() == Some("42")),
        ("&str from \"42\"", <&str>::try_from(lex_one(b"\"42\"")).ok() == Some("42")),
        ("Arbitrary from #1242", Arbitrary::try_from(lex_one(b"#1242")).ok() == Some(Arbitrary(b"42"))),
        ("Character from ABC", Character::try_from(lex_one(b"ABC")).ok() == Some(Character(b"ABC"))),
        ("Expression from (1,2)", Expression::try_from(lex_one(b"(1,2)")).ok() == Some(Expression(b"1,2"))),
        ("enum from ASC2", RigEnum::try_from(lex_one(b"ASC2")).ok() == Some(RigEnum::Ascii2)),
        ("&str from invalid utf8 block is an error", <&str>::try_from(Token::ArbitraryBlockData(b"\xff\xfe")).is_err()),
    ];
    for (name, ok) in checks {
        n += 1;
        if !ok {
            ctx.violation(base + n, "denoted-value", &format!("type matrix value check failed: {name}"), json!({"kind": "matrix-value", "name": name}));
        }
    }
    n
}

pub fn run(ctx: &'static Ctx) -> i32 {
    if let Err(e) = self_check() {
        engine_failure(&e);
    }
    // literal grammar, extended with float-range exponents and long mantissas
    let mut lits = literal_grammar(false);
    let ext_exps = ["E37", "E38", "E39", "E-37", "E-38", "E-44", "E-45", "E-46", "E307", "E308", "E309", "E-323", "E-324", "E-325", "e+38", "E-0"];
    let mants = [
        "1", "3.4028235", "3.4028236", "3.40282347", "1.17549435", "1.4", "1.40129846", "0.7", "0.70064923", "1.7976931348623157", "1.7976931348623158", "1.79769313486231581",
        "2.2250738585072014", "2.2250738585072011", "4.9406564584124654", "2.4703282292062327", "2.4703282292062328", "9.999999999999999999999999999999", "0.000000000000000000000000000001",
        "123456789012345678901234567890", "1.00000000000000011102230246251565404236316680908203125", "1.00000000000000011102230246251565404236316680908203124", "1.00000000000000011102230246251565404236316680908203126",
        "16777217", "16777216.999999", "16777217.0000001", "9007199254740993", "9007199254740992.9999", "9007199254740993.0000000000001",
    ];
    for m in mants {
        for e in ext_exps.iter().chain(["", "E0", "E1", "E-1"].iter()) {
            for s in ["", "-", "+"] {
                lits.push(format!("{s}{m}{e}"));
            }
        }
    }
    lits.sort();
    lits.dedup();
    let nl = lits.len() as u64;
    let accs = par_sweep(
        ctx,
        nl,
        SweepOpts {
            name: "C08 float literals",
            chunk: 256,
            hang_secs: 30,
        },
        || 0u64,
        |i, acc: &mut u64| {
            if check_float_literal(ctx, i, &lits[i as usize]) {
                *acc += 1;
            }
        },
        |i| json!({"kind": "float", "literal": lits[i as usize]}),
    );
    let float_lits: u64 = accs.iter().sum();
    let (s32, p32, s64, p64) = ctx.tier.pick((1usize, 8usize, 8usize, 6usize), (1, 2048, 1, 512));
    let h32 = halfway_f32(ctx, nl, s32, p32);
    let h64 = halfway_f64(ctx, nl + (1 << 24), s64, p64);
    let kw = keyword_check(ctx, nl + (2 << 24));
    let bl = bool_check(ctx, nl + (3 << 24));
    let tm = type_matrix(ctx, nl + (4 << 24));

    let mut c = cov();
    c.insert("evaluations".into(), json!(float_lits * 3 + h32 * 2 + h64 + kw * 2 + bl + tm));
    c.insert("distinct_nontrivial".into(), json!(h32 + h64 + kw + tm));
    c.insert("rule".into(), json!(format!("floats: {float_lits} literals (the C07 grammar plus float-range exponents E37..E39, E-37..E-46, E307..E309, E-323..E-325 and 17..55-digit mantissas around f32/f64 MAX, MIN_POSITIVE, smallest subnormal, 2^24+1, 2^53+1) converted to f32 and f64 (directly and via the lexer) and compared bit-for-bit with core::str::parse; {h32} constructed f32 halfway cases (every {s32}-th exponent incl. subnormals x {p32} mantissa patterns x {{exact midpoint, last digit +1, last digit -1}} x both signs, up to 150 digits) and {h64} f64 halfway cases (every {s64}-th exponent x {p64} patterns, up to 1077 digits) with the expected neighbour known by construction (and cross-checked against core::str::parse); keywords: {kw} spellings (both forms of INFinity NINFinity NAN MAXimum MINimum in all case patterns, every prefix, near misses) against the reference keyword matcher; booleans: {bl} spellings of ON/OFF, near misses and numerics; type matrix: {tm} evaluations over 27 targets x 8 element kinds with the documented accept list, each pair converted directly and through a real message with `next_data` and with `next_optional_data` (same verdict; a present element is never reported absent) (accepted => value, otherwise error in -100..-199, never a value). Distinct non-trivial = halfway cases + keyword spellings + matrix pairs")));
    c.insert("exhaustive".into(), json!(true));
    c.insert("samples".into(), json!(["3.4028235E38 -> f32::MAX", "3.4028236E38 -> f32 inf", "1.00000000000000011102230246251565404236316680908203125 (f64 halfway 1 | 1+2^-52) -> 1.0", "NINF -> -inf", "oFf -> false", "Expression from (1,2) -> value", "u8 from \"42\" -> -104"]));
    ctx.finish(
        "exploration",
        c,
        vec![
            "core::str::parse::<f32/f64> is the correctly-rounding reference; halfway cases are additionally known by construction from exact big-integer arithmetic".into(),
            "for bool, character data other than ON/OFF must give an error of any class (wrong value, right type); wrong element types must give a command error".into(),
        ],
    )
}

pub fn replay(case: &Value) -> Result<String, String> {
    let ctx2: &'static Ctx = Box::leak(Box::new(Ctx::new("C08", Tier::Quick)));
    match case["kind"].as_str() {
        Some("float") => {
            let lit = case["literal"].as_str().unwrap_or("");
            check_float_literal(ctx2, 0, lit);
        }
        Some("keyword") => {
            keyword_check(ctx2, 0);
        }
        Some("bool-chr") | Some("bool-num") => {
            bool_check(ctx2, 0);
        }
        _ => {
            type_matrix(ctx2, 0);
        }
    }
    if ctx2.violation_count() > 0 {
        Err("case still fails".into())
    } else {
        Ok("conforms".into())
    }
}
