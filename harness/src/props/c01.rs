//! C01 – arbitrary input is processed totally: no panic, overflow, hang or internal error.
//!
//! Every string up to a bound over one byte per lexical class, and every contextual continuation
//! behind prefixes that place each reader at offset 0, against 3 tree shapes x 5 handler plans
//! (incl. "apply every typed conversion to every pulled token and iterate list expressions"),
//! plus direct sweeps of the channel-list / numeric-list iterators. Run under both build profiles
//! (`./check C01` runs the dbg build first, then release).

use crate::core::*;
use crate::props::c04::SIGMA_LEX;
use crate::rig::*;
use scpi::parser::expression::channel_list::{self, ChannelList};
use scpi::parser::expression::numeric_list::{self, NumericList};
use scpi::parser::tokenizer::Tokenizer;
use serde_json::{json, Value};
use std::sync::atomic::Ordering;

pub fn trees() -> Vec<TreeSpec> {
    vec![
        // T1: single leaf
        TreeSpec::root(vec![TreeSpec::leaf("A", 0)]),
        // T2: defaults, suffixed siblings, anonymous default leaf, common command
        TreeSpec::root(vec![
            TreeSpec::branch(
                "A",
                vec![
                    TreeSpec::dleaf("", 0),
                    TreeSpec::dbranch("E", vec![TreeSpec::leaf("A1", 1), TreeSpec::leaf("A2", 2), TreeSpec::leaf("H", 3)]),
                    TreeSpec::leaf("H", 4),
                ],
            ),
            TreeSpec::leaf("E", 5),
            TreeSpec::leaf("*A", 6),
        ]),
        // T3: depth-3 chain
        TreeSpec::root(vec![TreeSpec::branch("A", vec![TreeSpec::branch("E", vec![TreeSpec::leaf("H", 0)])])]),
    ]
}

pub fn plans() -> Vec<Plan> {
    vec![
        // P0 pull nothing
        Plan {
            resp: &[Item::I64(1)],
            ..Plan::NOP
        },
        // P1 pull everything raw and apply every typed conversion
        Plan {
            opt: 8,
            convert: true,
            resp: &[Item::I64(1)],
            ..Plan::NOP
        },
        // P2 one required
        Plan {
            req: 1,
            convert: true,
            resp: &[Item::I64(1)],
            ..Plan::NOP
        },
        // P3 two optional
        Plan {
            opt: 2,
            convert: true,
            resp: &[Item::Str(b"s")],
            ..Plan::NOP
        },
        // P4 one required + one optional + larger response
        Plan {
            req: 1,
            opt: 1,
            convert: true,
            resp: &[Item::Header(b"H"), Item::F32(1.5), Item::Block(b"xy")],
            ..Plan::NOP
        },
    ]
}

#[derive(Default)]
pub struct Acc {
    pub runs: u64,
    pub ok: u64,
    pub errs: u64,
    pub codes: std::collections::BTreeSet<i16>,
    pub handler_calls: u64,
    pub conversions: u64,
}

/// One execution. Returns a violation (key, what) if the property is broken.
pub fn exec_case(tree: &'static scpi::tree::Node<'static, RigDev>, plan: Plan, msg: &[u8], out: &mut Vec<u8>, acc: &mut Acc) -> Option<(String, String)> {
    let mut dev = RigDev::with_plan(plan);
    out.clear();
    acc.runs += 1;
    let r = guarded(|| run_vec(tree, &mut dev, msg, out));
    match r {
        Err(p) => {
            // classify by panic location
            let loc = p.rsplit(" @ ").next().unwrap_or("").to_string();
            let file = loc.rsplit('/').next().unwrap_or("").to_string();
            Some((format!("panic@{file}"), format!("`{}` panicked: {p}", esc(msg))))
        }
        Ok(res) => {
            acc.handler_calls += dev.calls.len() as u64;
            acc.conversions += dev.pulls.len() as u64 * N_CONVERSIONS as u64 * plan.convert as u64;
            if dev.internal_error {
                return Some(("internal-error-in-conversion".into(), format!("`{}`: a typed conversion of a pulled token produced the internal parser error (or an iterator did not stop within len+2 steps)", esc(msg))));
            }
            // (log overflow of the fixed-size rig logs is expected for the very long directed inputs)
            match res {
                Ok(()) => {
                    acc.ok += 1;
                    None
                }
                Err(e) => {
                    acc.errs += 1;
                    acc.codes.insert(e.get_code());
                    if is_internal_error(&e) {
                        return Some(("internal-error".into(), format!("`{}` surfaced -300 'Internal parser error'", esc(msg))));
                    }
                    if e.get_code() >= 0 {
                        return Some(("non-scpi-error".into(), format!("`{}` returned non-negative error {}", esc(msg), e.get_code())));
                    }
                    None
                }
            }
        }
    }
}

/// The tokenizer alone: at most len+1 items.
pub fn tokenizer_total(msg: &[u8]) -> Option<(String, String)> {
    let r = guarded(|| {
        let mut n = 0usize;
        for t in Tokenizer::new(msg) {
            n += 1;
            if n > msg.len() + 1 {
                return Err(n);
            }
            if t.is_err() {
                break;
            }
        }
        Ok(())
    });
    match r {
        Err(p) => Some(("panic@tokenizer".into(), format!("Tokenizer on `{}` panicked: {p}", esc(msg)))),
        Ok(Err(_)) => Some(("tokenizer-runaway".into(), format!("Tokenizer on `{}` yields more than len+1 items", esc(msg)))),
        Ok(Ok(())) => None,
    }
}

pub const LIST_ALPHA: &[u8] = b"12!,:-+.E'\" a";

/// Direct list sweep: channel list `@w` and numeric list `w`, iterate to first error, walk specs.
pub fn list_case(w: &[u8], acc: &mut Acc) -> Option<(String, String)> {
    acc.runs += 1;
    let r = guarded(|| {
        let mut runaway = false;
        let mut h = 0u64;
        let mut buf = [0u8; 16];
        buf[0] = b'@';
        buf[1..1 + w.len()].copy_from_slice(w);
        let cap = w.len() + 3;
        if let Some(cl) = ChannelList::new(&buf[..1 + w.len()]) {
            let mut n = 0;
            for item in cl {
                n += 1;
                if n > cap {
                    runaway = true;
                    break;
                }
                match item {
                    Ok(channel_list::Token::ChannelSpec(s)) => h = walk_spec(s, cap, h, &mut runaway),
                    Ok(channel_list::Token::ChannelRange(a, b)) => {
                        h = walk_spec(a, cap, h, &mut runaway);
                        h = walk_spec(b, cap, h, &mut runaway);
                    }
                    Ok(_) => {}
                    Err(_) => break,
                }
            }
        }
        let mut n = 0;
        for item in NumericList::new(w) {
            n += 1;
            if n > cap {
                runaway = true;
                break;
            }
            match item {
                Ok(numeric_list::Token::Numeric(a)) => {
                    let _ = f64::try_from(a);
                    let _ = i16::try_from(a);
                }
                Ok(numeric_list::Token::NumericRange(a, b)) => {
                    let _ = f32::try_from(a);
                    let _ = u64::try_from(b);
                }
                Err(e) => {
                    if is_internal_error(&e) {
                        return Err("internal error from numeric list");
                    }
                    break;
                }
            }
        }
        std::hint::black_box(h);
        if runaway {
            Err("iterator did not stop within len+3 steps")
        } else {
            Ok(())
        }
    });
    match r {
        Err(p) => {
            let loc = p.rsplit(" @ ").next().unwrap_or("").to_string();
            let file = loc.rsplit('/').next().unwrap_or("").to_string();
            Some((format!("panic@{file}"), format!("list expression `{}` panicked: {p}", esc(w))))
        }
        Ok(Err(m)) => Some(("list-runaway".into(), format!("list expression `{}`: {m}", esc(w)))),
        Ok(Ok(())) => None,
    }
}

pub struct Env01 {
    pub ts: Vec<SharedTree>,
    pub ps: Vec<Plan>,
}
impl Env01 {
    pub fn new() -> Env01 {
        Env01 { ts: trees().iter().map(SharedTree::of).collect(), ps: plans() }
    }
    pub fn combos(&self) -> u64 {
        (self.ts.len() * self.ps.len()) as u64
    }
    /// sweep (a): idx -> (string index, tree, plan)
    pub fn case_a(&self, ctx: &Ctx, idx: u64, acc: &mut Acc, out: &mut Vec<u8>) {
        let combos = self.combos();
        let si = idx / combos;
        let c = (idx % combos) as usize;
        let mut buf = [0u8; 8];
        let l = nth_string(SIGMA_LEX, si, &mut buf);
        let msg = &buf[..l];
        if c == 0 {
            if let Some((k, w)) = tokenizer_total(msg) {
                ctx.violation(idx, &k, &w, json!({"kind": "tokenizer", "input": esc(msg)}));
            }
        }
        let (t, p) = (c / self.ps.len(), c % self.ps.len());
        if let Some((k, w)) = exec_case(self.ts[t].node(), self.ps[p], msg, out, acc) {
            ctx.violation(idx, &k, &format!("[tree {t}, plan {p}] {w}"), json!({"kind": "run", "tree": t, "plan": p, "input": esc(msg)}));
        }
    }
    /// sweep (b): contextual
    pub fn case_b(&self, ctx: &Ctx, base: u64, per: u64, idx: u64, acc: &mut Acc, out: &mut Vec<u8>) {
        let which = (idx % 2) as usize;
        let j = idx / 2;
        let p = PREFIXES[(j / per) as usize].as_bytes();
        let mut buf = [0u8; 32];
        buf[..p.len()].copy_from_slice(p);
        let l = nth_string(SIGMA_LEX, j % per, &mut buf[p.len()..]);
        let msg = &buf[..p.len() + l];
        // tree T2 for the default/suffix prefixes, T3 for the chain; plan P1 (convert all) and P4
        let t = if p.starts_with(b"A:E:H") { 2 } else { 1 };
        let plan = if which == 0 { 1 } else { 4 };
        if let Some((k, w)) = exec_case(self.ts[t].node(), self.ps[plan], msg, out, acc) {
            ctx.violation(base + idx, &k, &format!("[tree {t}, plan {plan}] {w}"), json!({"kind": "run", "tree": t, "plan": plan, "input": esc(msg)}));
        }
    }
    /// sweep (c): list bodies
    pub fn case_c(&self, ctx: &Ctx, base: u64, idx: u64, acc: &mut Acc) {
        let mut buf = [0u8; 8];
        let l = nth_string(LIST_ALPHA, idx, &mut buf);
        if let Some((key, w)) = list_case(&buf[..l], acc) {
            ctx.violation(base + idx, &key, &w, json!({"kind": "list", "input": esc(&buf[..l])}));
        }
    }
}

pub const PREFIXES: &[&str] = &["A ", "A? ", "A 1,", "A:E ", "A (", "A (@", "A #", "A #1", "A #2", "A \"", "*A ", "A #H", "A 1", "A:E:H (@1!", "A (1:"];

/// Machinery self-test (never set by the registered commands): `VERIF_INJECT=abort:<idx>` makes the
/// worker abort the process at case <idx> of sweep (a), `VERIF_INJECT=hang:<idx>` makes it spin
/// there, so that the crash journal / watchdog paths of ./check can be exercised.
fn injected() -> Option<(bool, u64)> {
    let v = std::env::var("VERIF_INJECT").ok()?;
    let (k, i) = v.split_once(':')?;
    Some((k == "abort", i.parse().ok()?))
}

pub fn run(ctx: &'static Ctx) -> i32 {
    let inject = injected();
    let _ = std::fs::remove_dir_all(journal_dir());
    std::fs::create_dir_all(journal_dir()).ok();
    JOURNAL.store(true, Ordering::Relaxed);
    let env = Env01::new();
    let combos = env.combos();

    // (a) Sigma_lex^<=n
    let n = ctx.tier.pick(4u32, 5u32);
    let nstr = count_upto(SIGMA_LEX.len() as u64, n);
    let total_a = nstr * combos;
    let merge = |accs: Vec<(Acc, Vec<u8>)>, tot: &mut Acc| {
        for (a, _) in accs {
            tot.runs += a.runs;
            tot.ok += a.ok;
            tot.errs += a.errs;
            tot.codes.extend(a.codes);
            tot.handler_calls += a.handler_calls;
            tot.conversions += a.conversions;
        }
    };
    let mut tot = Acc::default();
    let accs = par_sweep(
        ctx,
        total_a,
        SweepOpts {
            name: "C01-a",
            chunk: 8192,
            hang_secs: 20,
        },
        || (Acc::default(), Vec::with_capacity(64)),
        |idx, (acc, out): &mut (Acc, Vec<u8>)| {
            if let Some((abort, at)) = inject {
                if idx == at {
                    if abort {
                        std::process::abort();
                    }
                    loop {
                        std::hint::spin_loop();
                    }
                }
            }
            env.case_a(ctx, idx, acc, out);
        },
        |idx| {
            let mut buf = [0u8; 8];
            let l = nth_string(SIGMA_LEX, idx / combos, &mut buf);
            json!({"kind": "run", "tree": (idx % combos) as usize / 5, "plan": (idx % combos) as usize % 5, "input": esc(&buf[..l])})
        },
    );
    merge(accs, &mut tot);
    let a_runs = tot.runs;

    // (b) contextual sweeps
    let m = ctx.tier.pick(4u32, 5u32);
    let per = count_upto(SIGMA_LEX.len() as u64, m);
    let total_b = per * PREFIXES.len() as u64 * 2;
    let accs = par_sweep(
        ctx,
        total_b,
        SweepOpts {
            name: "C01-b",
            chunk: 8192,
            hang_secs: 20,
        },
        || (Acc::default(), Vec::with_capacity(64)),
        |idx, (acc, out): &mut (Acc, Vec<u8>)| {
            env.case_b(ctx, total_a, per, idx, acc, out);
        },
        |idx| json!({"kind": "contextual-index", "index": idx}),
    );
    merge(accs, &mut tot);
    let b_runs = tot.runs - a_runs;

    // (c) direct list sweeps
    let k = ctx.tier.pick(5u32, 7u32);
    let total_c = count_upto(LIST_ALPHA.len() as u64, k);
    let accs = par_sweep(
        ctx,
        total_c,
        SweepOpts {
            name: "C01-c",
            chunk: 1 << 14,
            hang_secs: 20,
        },
        || (Acc::default(), Vec::new()),
        |idx, (acc, _): &mut (Acc, Vec<u8>)| {
            env.case_c(ctx, total_a + total_b, idx, acc);
        },
        |idx| {
            let mut buf = [0u8; 8];
            let l = nth_string(LIST_ALPHA, idx, &mut buf);
            json!({"kind": "list", "input": esc(&buf[..l])})
        },
    );
    merge(accs, &mut tot);
    let c_runs = tot.runs - a_runs - b_runs;
    // (d) directed families beyond the length bound (long elements, every byte value)
    let mut directed = crate::props::c04::long_elements();
    directed.extend(crate::props::c04::byte_substitutions());
    directed.extend(crate::props::c04::hash_family());
    for lit in crate::props::c07::literal_grammar(false) {
        // every bound / half / exponent literal as a parameter (overflow checks differ by profile)
        directed.push(format!("A {lit}").into_bytes());
    }
    for l in [13usize, 255, 256, 257, 300, 65536] {
        // long list expressions and long channel specs
        let body: Vec<u8> = (0..l).map(|i| if i % 2 == 0 { b'1' } else { b',' }).collect();
        directed.push([b"A (".as_slice(), &body, b"1)"].concat());
        directed.push([b"A (@".as_slice(), &body, b"1)"].concat());
        let spec: Vec<u8> = (0..l).map(|i| if i % 2 == 0 { b'1' } else { b'!' }).collect();
        directed.push([b"A (@".as_slice(), &spec, b"1)"].concat());
        let units: Vec<u8> = (0..l).flat_map(|_| b"A;".to_vec()).collect();
        directed.push(units);
        let deep: Vec<u8> = (0..l).flat_map(|_| b"A:".to_vec()).collect();
        directed.push([deep.as_slice(), b"A"].concat());
    }
    let nd = directed.len() as u64 * combos;
    let accs = par_sweep(
        ctx,
        nd,
        SweepOpts {
            name: "C01-d",
            chunk: 64,
            hang_secs: 30,
        },
        || (Acc::default(), Vec::with_capacity(64)),
        |idx, (acc, out): &mut (Acc, Vec<u8>)| {
            let msg = &directed[(idx / combos) as usize];
            let c = (idx % combos) as usize;
            let (t, p) = (c / env.ps.len(), c % env.ps.len());
            if c == 0 {
                if let Some((k, w)) = tokenizer_total(msg) {
                    ctx.violation(total_a + total_b + total_c + idx, &k, trunc(&w, 400), json!({"kind": "tokenizer", "input": esc(msg)}));
                }
            }
            if let Some((k, w)) = exec_case(env.ts[t].node(), env.ps[p], msg, out, acc) {
                ctx.violation(total_a + total_b + total_c + idx, &k, &format!("[tree {t}, plan {p}] {}", trunc(&w, 400)), json!({"kind": "run", "tree": t, "plan": p, "input": esc(msg)}));
            }
        },
        |idx| json!({"kind": "directed-index", "index": idx}),
    );
    merge(accs, &mut tot);
    let d_runs = tot.runs - a_runs - b_runs - c_runs;
    JOURNAL.store(false, Ordering::Relaxed);
    let _ = std::fs::remove_dir_all(journal_dir());

    let mut c = cov();
    // merge the dbg-profile run (made just before by ./check) so that evidence/C01.json covers both
    let mut other_profile = Value::Null;
    if !cfg!(debug_assertions) {
        if let Ok(t) = std::fs::read_to_string(format!("{VERIF_DIR}/evidence/C01.dbg.json")) {
            if let Ok(v) = serde_json::from_str::<Value>(&t) {
                other_profile = json!({"build_profile": v["coverage"]["build_profile"], "evaluations": v["coverage"]["evaluations"], "violations": v["violations"], "wall_s": v["wall_s"]});
            }
        }
    }
    let other_evals = other_profile["evaluations"].as_u64().unwrap_or(0);
    c.insert("evaluations".into(), json!(tot.runs + other_evals));
    c.insert("evaluations_this_profile".into(), json!(tot.runs));
    c.insert("other_profile_run".into(), other_profile);
    c.insert("distinct_nontrivial".into(), json!(tot.errs + tot.handler_calls.min(tot.ok)));
    c.insert("rule".into(), json!(format!("(a) every string of length <= {n} over {} class-representative bytes ({nstr} strings) x 3 tree shapes (single leaf; defaults + suffixed siblings + anonymous default leaf + common command; depth-3 chain) x 5 handler plans (pull nothing; pull all and apply all {} typed conversions incl. list iteration, spec walks and tuple conversions; one required; two optional; required+optional with header/float/block response) = {a_runs} runs, plus the bare Tokenizer on every string; (b) {} prefixes x every continuation of length <= {m} over the same full alphabet (so that header bytes such as `*` `:` `?` also appear after data separators) x 2 plans = {b_runs} runs; (c) every string of length <= {k} over `12!,:-+.E'\" a` as channel-list (`@w`) and numeric-list body, iterated to the first error with spec walks and conversions = {c_runs} cases; (d) directed inputs beyond the length bound (every literal of the C07 grammar as a parameter, elements of 32 lengths from 11 to 65549 bytes, every byte value 0..255 at every position of 8 well-formed messages, list expressions / channel specs / unit chains / header chains of up to 65536 items) x 3 trees x 5 plans = {d_runs} runs. Oracle: no panic (caught per case), no hang (watchdog), no -300 'Internal parser error', iterators stop within len+2 steps; process death is reported by ./check from the per-chunk journal. Distinct non-trivial = runs ending in an error + successful runs that entered a handler", SIGMA_LEX.len(), N_CONVERSIONS, PREFIXES.len())));
    c.insert("exhaustive".into(), json!(true));
    c.insert("runs_ok".into(), json!(tot.ok));
    c.insert("runs_err".into(), json!(tot.errs));
    c.insert("distinct_error_codes".into(), json!(tot.codes.iter().collect::<Vec<_>>()));
    c.insert("handler_invocations".into(), json!(tot.handler_calls));
    c.insert("typed_conversions_applied".into(), json!(tot.conversions));
    c.insert("samples".into(), json!([
        {"input": "A (@1!", "tree": 1, "plan": 1}, {"input": "A #0", "tree": 1, "plan": 4}, {"list": "1!!2"}, {"input": "A:E:H (@1!\\x80", "tree": 2, "plan": 1}
    ]));
    ctx.finish(
        "exploration",
        c,
        vec![
            "bytes are one representative per lexical class; the readers branch only on class membership and on block length digits (0, 1, 9 present)".into(),
            "both build profiles are exercised: ./check C01 runs the dbg build (debug assertions + overflow checks) first, then release".into(),
        ],
    )
}

pub fn replay(case: &Value) -> Result<String, String> {
    let input = unesc(case["input"].as_str().unwrap_or(""));
    match case["kind"].as_str() {
        Some("tokenizer") => match tokenizer_total(&input) {
            Some((k, w)) => Err(format!("{k}: {w}")),
            None => Ok("tokenizer total".into()),
        },
        Some("list") => {
            let mut acc = Acc::default();
            match list_case(&input, &mut acc) {
                Some((k, w)) => Err(format!("{k}: {w}")),
                None => Ok("list iteration total".into()),
            }
        }
        Some("run") => {
            let t = case["tree"].as_u64().unwrap_or(0) as usize;
            let p = case["plan"].as_u64().unwrap_or(0) as usize;
            let tree = trees()[t].build();
            let mut acc = Acc::default();
            let mut out = vec![];
            match exec_case(tree, plans()[p], &input, &mut out, &mut acc) {
                Some((k, w)) => Err(format!("{k}: {w}")),
                None => Ok(format!("returns normally ({} ok, {} err)", acc.ok, acc.errs)),
            }
        }
        Some("crash-journal") => {
            // re-run the journaled chunks one case at a time, announcing each case first: if the
            // process dies again, the last announced case is the culprit
            let env = Env01::new();
            let ctx2: &'static Ctx = Box::leak(Box::new(Ctx::new("C01", Tier::Quick)));
            let tier = if case["tier"].as_str() == Some("thorough") { Tier::Thorough } else { Tier::Quick };
            let n = tier.pick(4u32, 5u32);
            let total_a = count_upto(SIGMA_LEX.len() as u64, n) * env.combos();
            let per = count_upto(SIGMA_LEX.len() as u64, tier.pick(4u32, 5u32));
            let mut acc = Acc::default();
            let mut out = vec![];
            for ch in case["chunks"].as_array().unwrap_or(&vec![]) {
                let parts: Vec<&str> = ch.as_str().unwrap_or("").split_whitespace().collect();
                if parts.len() != 3 {
                    continue;
                }
                let (a, b): (u64, u64) = (parts[1].parse().unwrap_or(0), parts[2].parse().unwrap_or(0));
                for idx in a..b {
                    eprintln!("replaying {} case {idx}", parts[0]);
                    match parts[0] {
                        "C01-a" => env.case_a(ctx2, idx, &mut acc, &mut out),
                        "C01-b" => env.case_b(ctx2, total_a, per, idx, &mut acc, &mut out),
                        _ => env.case_c(ctx2, 0, idx, &mut acc),
                    }
                }
            }
            if ctx2.violation_count() > 0 {
                Err("journaled cases violate the property (see stderr)".into())
            } else {
                Ok("journaled chunks run to completion".into())
            }
        }
        _ => engine_failure("bad C01 replay"),
    }
}
