//! C04 – lexing is faithful: element boundaries and types follow IEEE 488.2 section 7.
//!
//! (a) every string up to length n over one representative byte per lexical class,
//! (b) grammar derivations with every white-space placement, (c) their single-point corruptions,
//! (d) contextual sweeps behind prefixes that put each data reader at offset 0;
//! each judged by the three-valued reference `lex488`, on the raw `Tokenizer` and on `Node::run`
//! against a tree that defines every short header the alphabet can spell.

use crate::core::*;
use crate::refmodel::lex488::*;
use crate::rig::*;
use scpi::parser::tokenizer::{Token, Tokenizer};
use serde_json::{json, Value};

pub const SIGMA_LEX: &[u8] = b"AEH109 :;,?*#\"'().+-/_@!\n\t\r\x0c\x00\x80";
pub const SIGMA_DATA: &[u8] = b"AEH109 ;,#\"'().+-/_@!\n\t\r\x0c\x00\x80";

/// Universal tree: A, E, H at the root, each a branch with an anonymous default leaf and children
/// A, E, H; common commands *A, *E, *H. Every handler pulls up to 8 optional parameters.
pub fn universal_tree() -> TreeSpec {
    let mut id = 0u8;
    let mut next = || {
        let x = id;
        id += 1;
        x
    };
    let mut root = vec![];
    for x in ["A", "E", "H"] {
        let mut sub = vec![TreeSpec::dleaf("", next())];
        for y in ["A", "E", "H"] {
            sub.push(TreeSpec::leaf(y, next()));
        }
        root.push(TreeSpec::branch(x, sub));
    }
    for x in ["*A", "*E", "*H"] {
        root.push(TreeSpec::leaf(x, next()));
    }
    TreeSpec::root(root)
}

pub fn universal_plan() -> Plan {
    Plan {
        opt: 8,
        resp: &[Item::I64(1)],
        ..Plan::NOP
    }
}

/// Is every unit header of an accepted token stream defined in the universal tree?
fn headers_defined(s: &[u8], toks: &[Tok]) -> bool {
    let mut path: Vec<&[u8]> = vec![];
    let mut leading_colon = false;
    let mut level_branch: Option<u8> = None; // current level: None=root, Some(X)=inside branch X
    let mut first_unit = true;
    let mut i = 0;
    let letter = |m: &[u8]| -> Option<u8> {
        if m.len() == 1 && matches!(m[0].to_ascii_uppercase(), b'A' | b'E' | b'H') {
            Some(m[0].to_ascii_uppercase())
        } else {
            None
        }
    };
    loop {
        // collect header of this unit
        path.clear();
        leading_colon = false;
        let mut seen_any = false;
        while i < toks.len() {
            match toks[i] {
                Tok::Colon => {
                    if !seen_any {
                        leading_colon = true;
                    }
                }
                Tok::Mnemonic((a, b)) => {
                    seen_any = true;
                    path.push(&s[a as usize..b as usize]);
                }
                _ => break,
            }
            i += 1;
        }
        if !path.is_empty() {
            if path[0].starts_with(b"*") {
                if !(path.len() == 1 && path[0].len() == 2 && letter(&path[0][1..]).is_some()) {
                    return false;
                }
            } else {
                let start = if first_unit || leading_colon { None } else { level_branch };
                match (start, path.len()) {
                    (None, 1) => {
                        if letter(path[0]).is_none() {
                            return false;
                        }
                        level_branch = None;
                    }
                    (None, 2) => match (letter(path[0]), letter(path[1])) {
                        (Some(x), Some(_)) => level_branch = Some(x),
                        _ => return false,
                    },
                    (Some(_), 1) => {
                        if letter(path[0]).is_none() {
                            return false;
                        }
                    }
                    _ => return false,
                }
            }
        }
        first_unit = false;
        // skip to next unit
        while i < toks.len() && toks[i] != Tok::Semi {
            i += 1;
        }
        if i >= toks.len() {
            return true;
        }
        i += 1;
    }
}

/// The implementation's token stream, in reference vocabulary. Returns (tokens, first error, runaway).
pub fn impl_tokens(s: &[u8]) -> (Toks, Option<i16>, bool) {
    let base = s.as_ptr() as usize;
    let rng = |x: &[u8]| -> R {
        let p = x.as_ptr() as usize;
        if p >= base && p + x.len() <= base + s.len() {
            ((p - base) as u16, (p - base + x.len()) as u16)
        } else {
            (u16::MAX, x.len() as u16)
        }
    };
    let mut out = Toks::new();
    let mut n = 0usize;
    for t in Tokenizer::new(s) {
        n += 1;
        if n > s.len() + 2 {
            return (out, None, true);
        }
        let t = match t {
            Ok(t) => t,
            Err(e) => return (out, Some(e.get_code()), false),
        };
        let tk = match t {
            Token::HeaderMnemonicSeparator => Tok::Colon,
            Token::HeaderQuerySuffix => Tok::Query,
            Token::ProgramMessageUnitSeparator => Tok::Semi,
            Token::ProgramHeaderSeparator => Tok::HeaderSep,
            Token::ProgramDataSeparator => Tok::Comma,
            Token::ProgramMnemonic(x) => Tok::Mnemonic(rng(x)),
            Token::CharacterProgramData(x) => Tok::Chr(rng(x)),
            Token::DecimalNumericProgramData(x) => Tok::Num(rng(x)),
            Token::DecimalNumericSuffixProgramData(x, y) => Tok::NumSuffix(rng(x), rng(y)),
            Token::NonDecimalNumericProgramData(v) => Tok::NonDec(v),
            Token::StringProgramData(x) => Tok::Str(rng(x)),
            Token::ArbitraryBlockData(x) => Tok::Block(rng(x)),
            Token::ExpressionProgramData(x) => Tok::Expr(rng(x)),
        };
        if out.try_push(tk).is_err() {
            return (out, None, false);
        }
    }
    (out, None, false)
}

fn tokrec_to_tok(t: &TokRec) -> Tok {
    match *t {
        TokRec::Chr(a, b) => Tok::Chr((a as u16, b as u16)),
        TokRec::Num(a, b) => Tok::Num((a as u16, b as u16)),
        TokRec::NumSuffix(a, b, c, d) => Tok::NumSuffix((a as u16, b as u16), (c as u16, d as u16)),
        TokRec::NonDec(v) => Tok::NonDec(v),
        TokRec::Str(a, b) => Tok::Str((a as u16, b as u16)),
        TokRec::Block(a, b) => Tok::Block((a as u16, b as u16)),
        TokRec::Expr(a, b) => Tok::Expr((a as u16, b as u16)),
        TokRec::Other(_) => Tok::Comma,
    }
}

#[derive(Default)]
pub struct Stats {
    pub evals: u64,
    pub accepted: u64,
    pub accepted_multi: u64,
    pub rejected_listed: u64,
    pub rejected_by_lexer: u64,
    pub rejected_by_dispatcher: u64,
    pub rejected_masked_113: u64,
    pub unspec_accepted: u64,
    pub unspec_rejected: u64,
    pub run_checked: u64,
    pub by_class: [u64; 7],
    pub outcomes: std::collections::HashSet<u64>,
}

impl Stats {
    pub fn merge(&mut self, o: Stats) {
        self.evals += o.evals;
        self.accepted += o.accepted;
        self.accepted_multi += o.accepted_multi;
        self.rejected_listed += o.rejected_listed;
        self.rejected_by_lexer += o.rejected_by_lexer;
        self.rejected_by_dispatcher += o.rejected_by_dispatcher;
        self.rejected_masked_113 += o.rejected_masked_113;
        self.unspec_accepted += o.unspec_accepted;
        self.unspec_rejected += o.unspec_rejected;
        self.run_checked += o.run_checked;
        for i in 0..7 {
            self.by_class[i] += o.by_class[i];
        }
        if self.outcomes.len() < 200_000 {
            self.outcomes.extend(o.outcomes);
        }
    }
}

fn class_idx(c: Class) -> usize {
    match c {
        Class::TooLong => 0,
        Class::UnterminatedString => 1,
        Class::BadBlock => 2,
        Class::NonAscii => 3,
        Class::MisplacedColon => 4,
        Class::MisplacedComma => 5,
        Class::MissingSeparator => 6,
    }
}

fn is_cmd_err(c: i16) -> bool {
    (-199..=-100).contains(&c)
}

pub struct Env {
    pub tree: SharedTree,
    pub dev: RigDev,
    pub out: Vec<u8>,
}

impl Env {
    pub fn new(tree: SharedTree) -> Env {
        Env {
            tree,
            dev: RigDev::with_plan(universal_plan()),
            out: Vec::with_capacity(64),
        }
    }
}

/// Judge one input. Returns Some((key, what)) on a violation.
pub fn judge(s: &[u8], env: &mut Env, st: &mut Stats) -> Option<(String, String)> {
    st.evals += 1;
    let v = lex(s);
    let (mut toks, terr, runaway) = impl_tokens(s);
    if runaway {
        return Some(("tokenizer-runaway".into(), format!("Tokenizer yields more than len+2 items on `{}`", esc(s))));
    }
    match v {
        Verdict::Accept(mut want) => {
            st.accepted += 1;
            normalise(&mut want);
            normalise(&mut toks);
            if want.len() >= 2 {
                st.accepted_multi += 1;
            }
            if st.outcomes.len() < 50_000 {
                let mut h = 0u64;
                for t in want.iter() {
                    let tag: u8 = match t {
                        Tok::Colon => 1,
                        Tok::Query => 2,
                        Tok::Semi => 3,
                        Tok::HeaderSep => 4,
                        Tok::Comma => 5,
                        Tok::Mnemonic(_) => 6,
                        Tok::Chr(_) => 7,
                        Tok::Num(_) => 8,
                        Tok::NumSuffix(..) => 9,
                        Tok::NonDec(_) => 10,
                        Tok::Str(_) => 11,
                        Tok::Block(_) => 12,
                        Tok::Expr(_) => 13,
                    };
                    h = fnv(h, &[tag]);
                }
                st.outcomes.insert(h);
            }
            if let Some(e) = terr {
                let key = if s.first().map_or(false, |c| c.is_ascii_whitespace()) && {
                    let t = &s[s.iter().position(|c| !c.is_ascii_whitespace()).unwrap_or(s.len())..];
                    impl_tokens(t).1.is_none()
                } {
                    "wellformed-rejected-leading-whitespace".to_string()
                } else {
                    format!("wellformed-rejected-by-lexer")
                };
                return Some((key, format!("well-formed `{}` is refused by the tokenizer with {e}; 488.2 elements: {:?}", esc(s), &want[..])));
            }
            if toks[..] != want[..] {
                return Some((
                    "wrong-decomposition".into(),
                    format!("`{}` is tokenized as {:?}, the 488.2 decomposition is {:?}", esc(s), &toks[..], &want[..]),
                ));
            }
            // end to end: the dispatcher must not refuse a well-formed message whose headers exist,
            // and handlers must see exactly the unit's data elements
            if headers_defined(s, &want) {
                st.run_checked += 1;
                env.out.clear();
                let r = guarded(|| run_vec(env.tree.node(), &mut env.dev, s, &mut env.out));
                match r {
                    Err(_) => {} // panics are C01's verdict
                    Ok(Err(e)) => {
                        let key = if s.first().map_or(false, |c| c.is_ascii_whitespace()) {
                            "wellformed-rejected-leading-whitespace"
                        } else {
                            "wellformed-rejected-by-run"
                        };
                        return Some((key.into(), format!("well-formed `{}` (all headers defined) fails with {}", esc(s), e.get_code())));
                    }
                    Ok(Ok(())) => {
                        let mut seen = Toks::new();
                        for p in env.dev.pulls.iter() {
                            if let Pull::Tok(t) = &p.pull {
                                let _ = seen.try_push(tokrec_to_tok(t));
                            }
                        }
                        let data: Vec<Tok> = want.iter().cloned().filter(|t| t.is_data()).collect();
                        if seen[..] != data[..] {
                            return Some((
                                "handlers-see-different-data".into(),
                                format!("`{}`: handlers were handed {:?}, the message carries {:?}", esc(s), &seen[..], data),
                            ));
                        }
                    }
                }
            }
            None
        }
        Verdict::Reject(class) => {
            st.rejected_listed += 1;
            st.by_class[class_idx(class)] += 1;
            if let Some(e) = terr {
                if is_cmd_err(e) {
                    st.rejected_by_lexer += 1;
                    return None;
                }
                return Some((format!("{}-wrong-error-class", class.name()), format!("`{}` ({}) is refused with {e}, not a command error", esc(s), class.name())));
            }
            if class.lexical() {
                return Some((class.name().into(), format!("`{}` ({}) passes the tokenizer as {:?}", esc(s), class.name(), &toks[..])));
            }
            // structural class: the dispatcher may be the one to refuse
            env.out.clear();
            let r = guarded(|| run_vec(env.tree.node(), &mut env.dev, s, &mut env.out));
            match r {
                Err(_) => None,
                Ok(Ok(())) => Some((class.name().into(), format!("`{}` ({}) is accepted end to end (tokens {:?})", esc(s), class.name(), &toks[..]))),
                Ok(Err(e)) => {
                    if e.get_code() == -113 {
                        st.rejected_masked_113 += 1;
                        None
                    } else if is_cmd_err(e.get_code()) {
                        st.rejected_by_dispatcher += 1;
                        None
                    } else {
                        Some((format!("{}-wrong-error-class", class.name()), format!("`{}` ({}) is refused with {}, not a command error", esc(s), class.name(), e.get_code())))
                    }
                }
            }
        }
        Verdict::MustNotAccept(why) => {
            st.rejected_listed += 1;
            if terr.is_some() {
                st.rejected_by_lexer += 1;
                return None;
            }
            env.out.clear();
            let r = guarded(|| run_vec(env.tree.node(), &mut env.dev, s, &mut env.out));
            match r {
                Ok(Ok(())) => Some(("value-misrepresented".into(), format!("`{}` ({why}) is accepted end to end (tokens {:?})", esc(s), &toks[..]))),
                Ok(Err(e)) if e.get_code() == -113 => Some(("value-misrepresented".into(), format!("`{}` ({why}) passes the tokenizer as {:?}", esc(s), &toks[..]))),
                _ => {
                    st.rejected_by_dispatcher += 1;
                    None
                }
            }
        }
        Verdict::Unspec(_) => {
            if terr.is_some() {
                st.unspec_rejected += 1;
            } else {
                st.unspec_accepted += 1;
            }
            None
        }
    }
}

// ---------------------------------------------------------------------------------------
// (b) grammar derivations and (c) single-point corruptions

pub const DATA_ELEMS: &[&str] = &[
    "ABC", "A1_B", "ABCDEFGHIJKL", "1", "-.5E-3", "1.", "+1e5", "1V", "1 MV", "2 V/S", "#HFF", "#Q17", "#B101", "#hff", "\"a;b\"", "'c,d'",
    "\"q\"\"q\"", "''", "#13;,;", "#10", "#211ABCDEFGHIJK", "#205hello", "(1,2:3)", "(@1!2,3:4)", "()",
];
pub const HEADERS: &[&str] = &["A", "E:A", ":H:E", "*A", "A?", "E:H?", "*E?", ":A?"];

/// all derivations: up to `max_units` units, each a header with 0..=max_data elements, with white
/// space placement variant `ws` (0 = minimal, 1..=4 place extra blanks at different points)
pub fn derivations(max_units: usize, max_data: usize, with_indefinite: bool) -> Vec<Vec<u8>> {
    let mut units: Vec<(Vec<Vec<u8>>, bool)> = vec![]; // (pieces..., relative-ok)
    for h in HEADERS {
        // 0 data
        units.push((vec![h.as_bytes().to_vec()], false));
        for d1 in DATA_ELEMS {
            units.push((vec![h.as_bytes().to_vec(), d1.as_bytes().to_vec()], false));
        }
        if max_data >= 2 {
            for (i, d1) in DATA_ELEMS.iter().enumerate() {
                // pair every element with three partners (rotation) instead of the full square
                for k in [1, 7, 13] {
                    let d2 = DATA_ELEMS[(i + k) % DATA_ELEMS.len()];
                    units.push((vec![h.as_bytes().to_vec(), d1.as_bytes().to_vec(), d2.as_bytes().to_vec()], false));
                }
            }
        }
    }
    let render = |pieces: &[Vec<u8>], ws: usize| -> Vec<u8> {
        let mut v = vec![];
        if ws == 1 {
            v.push(b' ');
        }
        v.extend_from_slice(&pieces[0]);
        for (i, d) in pieces[1..].iter().enumerate() {
            if i == 0 {
                v.extend_from_slice(if ws == 2 { b"  " } else { b" " });
            } else {
                v.extend_from_slice(match ws {
                    3 => b" ,".as_slice(),
                    4 => b", ".as_slice(),
                    2 => b" , ".as_slice(),
                    _ => b",".as_slice(),
                });
            }
            v.extend_from_slice(d);
        }
        if ws == 3 {
            v.push(b' ');
        }
        v
    };
    let mut out = vec![];
    for (u, _) in &units {
        for ws in 0..5 {
            let m = render(u, ws);
            for term in ["", "\n", " \n"] {
                let mut x = m.clone();
                x.extend_from_slice(term.as_bytes());
                out.push(x);
            }
        }
    }
    if max_units >= 2 {
        // two units: every unit followed by a rotating partner, separators `;` / `; ` / ` ;`
        let n = units.len();
        for (i, (u, _)) in units.iter().enumerate() {
            for k in [1usize, 5, 11] {
                let (u2, _) = &units[(i * 7 + k) % n];
                for (si, sep) in [";", "; ", " ;"].iter().enumerate() {
                    let mut m = render(u, si);
                    m.extend_from_slice(sep.as_bytes());
                    m.extend_from_slice(&render(u2, 0));
                    if si == 1 {
                        m.push(b'\n');
                    }
                    out.push(m);
                }
            }
        }
    }
    if with_indefinite {
        for h in ["A", "E:A?"] {
            for p in ["", "xy", ";,\"(", "\n"] {
                out.push(format!("{h} #0{p}\n").into_bytes());
                out.push(format!("{h} 1,#0{p}\n").into_bytes());
            }
        }
    }
    out.sort();
    out.dedup();
    out
}

/// single-point corruptions of a well-formed message
pub fn corruptions(m: &[u8]) -> Vec<Vec<u8>> {
    let mut out = vec![];
    let v = match lex(m) {
        Verdict::Accept(t) => t,
        _ => return out,
    };
    for t in v.iter() {
        match *t {
            // lengthen mnemonic / character data / suffix to 13
            Tok::Mnemonic((a, b)) | Tok::Chr((a, b)) => {
                let mut x = m[..b as usize].to_vec();
                for _ in 0..(13usize.saturating_sub((b - a) as usize)) {
                    x.push(b'X');
                }
                x.extend_from_slice(&m[b as usize..]);
                out.push(x);
            }
            Tok::NumSuffix(_, (a, b)) => {
                let mut x = m[..b as usize].to_vec();
                for _ in 0..(13usize.saturating_sub((b - a) as usize)) {
                    x.push(b'S');
                }
                x.extend_from_slice(&m[b as usize..]);
                out.push(x);
            }
            // drop the closing quote
            Tok::Str((_, b)) => {
                let mut x = m[..b as usize].to_vec();
                x.extend_from_slice(&m[b as usize + 1..]);
                out.push(x);
            }
            Tok::Block((a, b)) => {
                // drop / add one payload byte at the very end of the message only when the block is last
                if b as usize == m.len() {
                    if b > a {
                        out.push(m[..m.len() - 1].to_vec());
                    }
                }
                // make a length digit a non-digit (definite blocks: `#<n><len>`)
                if a >= 2 && m[..a as usize].iter().rposition(|c| *c == b'#').is_some() {
                    let h = m[..a as usize].iter().rposition(|c| *c == b'#').unwrap();
                    if m[h + 1] != b'0' && h + 2 < a as usize {
                        let mut x = m.to_vec();
                        x[h + 2] = b'x';
                        out.push(x);
                        // a sign or blank in place of a leading zero of the length field
                        if m[h + 2] == b'0' {
                            for c in [b'+', b'-', b' '] {
                                let mut x = m.to_vec();
                                x[h + 2] = c;
                                out.push(x);
                            }
                        }
                    }
                    if m[h + 1] == b'0' && m.last() == Some(&b'\n') {
                        // remove the NL of an indefinite block
                        out.push(m[..m.len() - 1].to_vec());
                    }
                }
            }
            _ => {}
        }
    }
    // 0x80 into every position outside block payloads
    let in_block = |i: usize| v.iter().any(|t| matches!(t, Tok::Block((a, b)) if i >= *a as usize && i < *b as usize));
    for i in 0..=m.len() {
        if !in_block(i) && !(i > 0 && in_block(i - 1) && i < m.len() && in_block(i)) {
            let mut x = m[..i].to_vec();
            x.push(0x80);
            x.extend_from_slice(&m[i..]);
            out.push(x);
        }
    }
    // extra `:` or `,` at every position outside strings / blocks / expressions
    let opaque = |i: usize| {
        v.iter().any(|t| match t {
            Tok::Block((a, b)) | Tok::Str((a, b)) | Tok::Expr((a, b)) => i >= *a as usize && i <= *b as usize,
            _ => false,
        })
    };
    for i in 0..=m.len() {
        if !opaque(i) {
            for c in [b':', b','] {
                let mut x = m[..i].to_vec();
                x.push(c);
                x.extend_from_slice(&m[i..]);
                out.push(x);
            }
        }
    }
    // delete the separator between two data elements
    for (k, t) in v.iter().enumerate() {
        if *t == Tok::Comma && k > 0 {
            // find the comma byte: between end of previous datum and start of next
            let prev_end = match v[k - 1] {
                Tok::Chr((_, b)) | Tok::Num((_, b)) | Tok::NumSuffix(_, (_, b)) | Tok::Expr((_, b)) | Tok::Block((_, b)) => b as usize,
                Tok::Str((_, b)) => b as usize + 1,
                _ => continue,
            };
            if let Some(off) = m[prev_end..].iter().position(|c| *c == b',') {
                let mut x = m[..prev_end + off].to_vec();
                x.push(b' ');
                x.extend_from_slice(&m[prev_end + off + 1..]);
                out.push(x);
            }
        }
    }
    out
}

/// Directed family: elements whose length crosses 12/13 and the counter boundaries 255/256/257,
/// 268/269 (256+12/13), 511/512, 65535/65536/65549.
pub fn long_elements() -> Vec<Vec<u8>> {
    let lens: &[usize] = &[11, 12, 13, 14, 20, 64, 127, 128, 129, 200, 254, 255, 256, 257, 258, 267, 268, 269, 270, 300, 511, 512, 513, 524, 525, 1000, 4096, 65535, 65536, 65537, 65548, 65549];
    let mut out = vec![];
    for &l in lens {
        let ident: Vec<u8> = (0..l).map(|i| if i % 7 == 3 { b'_' } else if i % 5 == 4 { b'1' } else { b'A' + (i % 26) as u8 }).collect();
        let mut ident = ident;
        ident[0] = b'A';
        let digits: Vec<u8> = (0..l).map(|i| b'0' + ((i * 7 + 1) % 10) as u8).collect();
        let sfx: Vec<u8> = (0..l).map(|i| if i % 9 == 8 { b'/' } else { b'V' }).collect();
        let s = |parts: &[&[u8]]| -> Vec<u8> { parts.concat() };
        out.push(s(&[&ident]));                                   // mnemonic
        out.push(s(&[b"A:", &ident, b"?"]));
        out.push(s(&[b"*", &ident]));
        out.push(s(&[b"A ", &ident]));                            // character data
        out.push(s(&[b"A 1,", &ident, b";E"]));
        out.push(s(&[b"A 1", &sfx]));                             // suffix
        out.push(s(&[b"A 1 ", &sfx, b",2"]));
        out.push(s(&[b"A ", &digits]));                           // long numbers
        out.push(s(&[b"A .", &digits, b"E-", &digits[..3.min(l)]]));
        out.push(s(&[b"A #H", &digits]));
        out.push(s(&[b"A \"", &ident, b"\",1"]));                // long string / expression are fine
        out.push(s(&[b"A (", &digits, b")"]));
        if l <= 999 {
            let hdr = format!("#3{:03}", l);
            out.push(s(&[b"A ", hdr.as_bytes(), &ident, b",1"])); // block with exact length
            out.push(s(&[b"A ", hdr.as_bytes(), &ident[..l - 1]])); // one byte short
        }
    }
    out
}

/// Directed family: everything `#` can introduce. Non-decimal literals with every digit character
/// (0-9, A-G, both cases) behind every radix letter, alone and after a valid digit (the class
/// alphabet has only digits that are valid in every radix); definite-length blocks with every width
/// 1..9 of the length field (zero padded), exact, one byte short and one byte long; `#` followed by
/// every other letter and ten digits (a length-field "digit" beyond 9).
pub fn hash_family() -> Vec<Vec<u8>> {
    let mut out = vec![];
    for r in b"HhQqBb" {
        for d in b"0123456789ABCDEFGabcdefgZ_" {
            for lead in [&b""[..], b"1", b"01"] {
                for tail in [&b""[..], b",1", b" ;E"] {
                    out.push([&b"A #"[..], &[*r], lead, &[*d], tail].concat());
                }
            }
        }
    }
    for w in 1..=9usize {
        for (len, body) in [(0usize, &b""[..]), (3, b"a;b"), (7, b"x,y\"z'w")] {
            let hdr = format!("#{w}{:0width$}", len, width = w);
            out.push([&b"A "[..], hdr.as_bytes(), body].concat());
            out.push([&b"A "[..], hdr.as_bytes(), body, b",1"].concat());
            out.push([&b"A 1,"[..], hdr.as_bytes(), body, b";E"].concat());
            if len > 0 {
                out.push([&b"A "[..], hdr.as_bytes(), &body[..len - 1]].concat());
            }
            out.push([&b"A "[..], hdr.as_bytes(), body, b"x"].concat());
        }
    }
    for l in b"ACDEFGIJKLMNOPRSTUVWXYZacdefgz" {
        out.push([&b"A #"[..], &[*l], b"0000000001x"].concat());
        out.push([&b"A #"[..], &[*l], b"0000000001x,1"].concat());
        out.push([&b"A #"[..], &[*l], b"1"].concat());
    }
    out
}

/// Directed family: every byte value 0..=255 substituted at every position of a set of well-formed
/// messages (class-representative alphabets cannot see a mis-drawn class boundary such as 0x60).
pub fn byte_substitutions() -> Vec<Vec<u8>> {
    let bases: &[&[u8]] = &[b"A:E? ABC,1", b"*A AB1_C", b"E:H 1.5E3 MV,#HFF", b"A \"ab\",'cd'", b"A (1,2:3)", b"A #13abc,X", b"H:E;A 12", b":A:E 1 V/S;*E?"];
    let mut out = vec![];
    for b in bases {
        for i in 0..b.len() {
            for v in 0..=255u8 {
                if b[i] == v {
                    continue;
                }
                let mut x = b.to_vec();
                x[i] = v;
                out.push(x);
            }
        }
    }
    out
}

pub fn samples_for(msgs: &[&[u8]]) -> Vec<Value> {
    msgs.iter()
        .map(|m| {
            let v = lex(m);
            let (t, e, _) = impl_tokens(m);
            json!({"input": esc(m), "reference": format!("{:?}", v), "implementation_tokens": format!("{:?}", &t[..]), "implementation_error": e})
        })
        .collect()
}

pub fn run(ctx: &'static Ctx) -> i32 {
    if let Err(e) = self_check() {
        engine_failure(&e);
    }
    let shared = SharedTree::of(&universal_tree());
    let n = ctx.tier.pick(5u32, 6u32);
    let k = SIGMA_LEX.len() as u64;
    let total_a = count_upto(k, n);
    let mut stats = Stats::default();

    // (a) Sigma_lex^<=n
    let accs = par_sweep(
        ctx,
        total_a,
        SweepOpts {
            name: "C04 (a) all strings",
            chunk: 1 << 15,
            hang_secs: 30,
        },
        || (Env::new(shared), Stats::default()),
        |idx, (env, st): &mut (Env, Stats)| {
            let mut buf = [0u8; 8];
            let l = nth_string(SIGMA_LEX, idx, &mut buf);
            if let Some((key, what)) = judge(&buf[..l], env, st) {
                ctx.violation(idx, &key, &what, json!({"kind": "input", "input": esc(&buf[..l])}));
            }
        },
        |idx| {
            let mut buf = [0u8; 8];
            let l = nth_string(SIGMA_LEX, idx, &mut buf);
            json!({"kind": "input", "input": esc(&buf[..l])})
        },
    );
    for (_, s) in accs {
        stats.merge(s);
    }
    let a_evals = stats.evals;

    // (d) contextual sweeps
    let prefixes: &[&str] = &["A #HFFFFFFFFFFFFFF", "A #Q17777777777777777777", "A #", "A #1", "A #2", "A \"", "A '", "A (", "A 1", "A 1,", "E:A? ", "*A ", "A 1 ", "A #H", "A #0"];
    let m = ctx.tier.pick(4u32, 5u32);
    let kd = SIGMA_DATA.len() as u64;
    let per = count_upto(kd, m);
    let total_d = per * prefixes.len() as u64;
    let accs = par_sweep(
        ctx,
        total_d,
        SweepOpts {
            name: "C04 (d) contextual",
            chunk: 1 << 14,
            hang_secs: 30,
        },
        || (Env::new(shared), Stats::default()),
        |idx, (env, st): &mut (Env, Stats)| {
            let p = prefixes[(idx / per) as usize].as_bytes();
            let mut buf = [0u8; 48];
            buf[..p.len()].copy_from_slice(p);
            let l = nth_string(SIGMA_DATA, idx % per, &mut buf[p.len()..]);
            let s = &buf[..p.len() + l];
            if let Some((key, what)) = judge(s, env, st) {
                ctx.violation(total_a + idx, &key, &what, json!({"kind": "input", "input": esc(s)}));
            }
        },
        |idx| json!({"kind": "contextual-index", "index": idx}),
    );
    for (_, s) in accs {
        stats.merge(s);
    }
    let d_evals = stats.evals - a_evals;

    // (b) + (c)
    let ders = derivations(2, 2, true);
    let nders = ders.len() as u64;
    let accs = par_sweep(
        ctx,
        nders,
        SweepOpts {
            name: "C04 (b,c) derivations and corruptions",
            chunk: 64,
            hang_secs: 30,
        },
        || (Env::new(shared), Stats::default(), 0u64),
        |idx, (env, st, ncorr): &mut (Env, Stats, u64)| {
            let d = &ders[idx as usize];
            match lex(d) {
                Verdict::Accept(_) => {}
                v => engine_failure(&format!("derivation `{}` is not accepted by the reference: {:?}", esc(d), v)),
            }
            if let Some((key, what)) = judge(d, env, st) {
                ctx.violation(total_a + total_d + idx * 1000, &format!("derivation-{key}"), &what, json!({"kind": "input", "input": esc(d)}));
            }
            for (ci, c) in corruptions(d).iter().enumerate() {
                *ncorr += 1;
                if let Some((key, what)) = judge(c, env, st) {
                    ctx.violation(
                        total_a + total_d + idx * 1000 + 1 + ci as u64,
                        &format!("corruption-{key}"),
                        &format!("{} (corruption of `{}`)", what, esc(d)),
                        json!({"kind": "input", "input": esc(c)}),
                    );
                }
            }
        },
        |idx| json!({"kind": "input", "input": esc(&ders[idx as usize])}),
    );
    let mut ncorr = 0;
    for (_, s, c) in accs {
        stats.merge(s);
        ncorr += c;
    }

    // (e) directed families beyond the length bound: long elements and all byte values
    let mut directed: Vec<Vec<u8>> = long_elements();
    let n_long = directed.len();
    directed.extend(byte_substitutions());
    directed.extend(hash_family());
    let n_dir = directed.len() as u64;
    let accs = par_sweep(
        ctx,
        n_dir,
        SweepOpts {
            name: "C04 (e) directed long / all-bytes",
            chunk: 64,
            hang_secs: 30,
        },
        || (Env::new(shared), Stats::default()),
        |idx, (env, st): &mut (Env, Stats)| {
            let d = &directed[idx as usize];
            if let Some((key, what)) = judge(d, env, st) {
                let what = trunc(&what, 600).to_string();
                ctx.violation(total_a + total_d + nders * 1000 + idx, &format!("directed-{key}"), &what, json!({"kind": "input", "input": esc(d)}));
            }
        },
        |idx| json!({"kind": "input", "input": esc(&directed[idx as usize])}),
    );
    for (_, s) in accs {
        stats.merge(s);
    }

    let mut c = cov();
    c.insert("evaluations".into(), json!(stats.evals));
    c.insert("directed_long_element_inputs".into(), json!(n_long));
    c.insert("directed_byte_substitution_inputs".into(), json!(n_dir as usize - n_long));
    c.insert("distinct_nontrivial".into(), json!(stats.accepted_multi + stats.rejected_listed));
    c.insert("rule".into(), json!(format!("(a) all {a_evals} strings of length <= {n} over one byte per lexical class ({} symbols: letters incl. E/H, digits 1/0/9, SP, `:;,?*#\"'().+-/_@!`, NL, TAB, CR, FF, NUL, 0x80); (d) {d_evals} contextual strings = {} prefixes that place each data reader at offset 0 x every continuation of length <= {m} over the data alphabet; (b) {nders} grammar derivations (headers simple/compound/common, command/query, 0..2 data elements from {} representatives of all seven data types incl. separators inside strings/blocks/expressions, 5 white-space placements, 3 terminator forms, 2-unit messages, indefinite blocks) and (c) {ncorr} single-point corruptions (lengthen mnemonic/character data/suffix to 13, drop a closing quote, truncate a block, non-digit in a block length, remove NL of #0 block, 0x80 at every non-block position, extra `:` or `,` at every position, delete a data separator); (e) directed families beyond the length bound: mnemonics, character data, suffixes, numbers, strings, expressions and blocks of 32 lengths from 11 to 65549 (crossing 12/13, 255/256, 268/269, 511/512, 65535/65536), every byte value 0..255 substituted at every position of 8 well-formed messages, and everything `#` can introduce (every digit character behind every radix letter, block length fields of every width 1..9, `#` followed by any other letter). Each input is classified by the three-valued reference lex488: accepted => Tokenizer stream must equal the 488.2 decomposition element by element and byte range by byte range, and (if every header exists in the universal tree) Node::run must succeed with handlers seeing exactly those data elements; listed violation => the tokenizer (lexical classes) or Node::run (structural classes) must refuse with an error in -100..-199; otherwise no verdict. Distinct non-trivial = accepted inputs with >= 2 elements + inputs in a listed violation class", SIGMA_LEX.len(), prefixes.len(), DATA_ELEMS.len())));
    c.insert("exhaustive".into(), json!(true));
    c.insert("accepted_wellformed".into(), json!(stats.accepted));
    c.insert("wellformed_checked_end_to_end".into(), json!(stats.run_checked));
    c.insert("listed_rejections".into(), json!(stats.rejected_listed));
    c.insert("listed_rejections_by_class".into(), json!({
        "element-longer-than-12": stats.by_class[0], "unterminated-string": stats.by_class[1], "truncated-or-malformed-block": stats.by_class[2],
        "non-ascii-outside-block": stats.by_class[3], "misplaced-colon": stats.by_class[4], "misplaced-comma": stats.by_class[5], "missing-separator-after-datum": stats.by_class[6]}));
    c.insert("refused_by_lexer".into(), json!(stats.rejected_by_lexer));
    c.insert("refused_by_dispatcher".into(), json!(stats.rejected_by_dispatcher));
    c.insert("refused_with_-113_(header_undefined_in_universal_tree)".into(), json!(stats.rejected_masked_113));
    c.insert("unspecified_accepted".into(), json!(stats.unspec_accepted));
    c.insert("unspecified_rejected".into(), json!(stats.unspec_rejected));
    c.insert("distinct_element_shapes".into(), json!(stats.outcomes.len()));
    c.insert(
        "samples".into(),
        Value::Array(samples_for(&[b":A:E? \"a;b\",#13;,;;H 1 MV\n", b"A #15abc", b"A 1,,2", b"A 'x", b"E:A 1 E5"])),
    );
    ctx.finish(
        "exploration",
        c,
        vec![
            "white space representatives are SP, TAB, CR and FF; other control bytes, NL before the end, white space around an exponent `E`, signs in non-decimal literals, `;;`, expression content `# ( \" ' ;` are outside what the property pins (no verdict)".into(),
            "a header-separator element not followed by data is ignored on both sides (488.2 has no such element)".into(),
            "the reference recogniser refmodel/lex488.rs is self-checked on a table of accept / reject / unspecified cases before use".into(),
        ],
    )
}

pub fn replay(case: &Value) -> Result<String, String> {
    let s = unesc(case["input"].as_str().unwrap_or(""));
    let mut env = Env::new(SharedTree::of(&universal_tree()));
    let mut st = Stats::default();
    match judge(&s, &mut env, &mut st) {
        Some((k, w)) => Err(format!("{k}: {w}")),
        None => Ok(format!("reference: {:?}", lex(&s))),
    }
}
