//! C18 – unit suffixes scale by their SCPI multiplier; unknown suffixes are rejected.
//! Every suffix string up to a bound per quantity (f32 and f64 storage), every case variant of the
//! accepted ones, several literals, against a rule-based oracle (multiplier x unit) that is
//! independent of the implementation's tables.

use crate::core::*;
use scpi::parser::suffix::{Amplitude, Db};
use scpi::parser::tokenizer::Token;
use scpi::units::uom::si::f64 as q64;
use scpi::units as q32;
use serde_json::{json, Value};

/// SCPI-99 / IEEE 488.2 7.7.3 suffix multipliers.
const MULT: &[(&str, f64)] = &[
    ("EX", 1e18), ("PE", 1e15), ("T", 1e12), ("G", 1e9), ("MA", 1e6), ("K", 1e3), ("M", 1e-3), ("U", 1e-6), ("N", 1e-9), ("P", 1e-12), ("F", 1e-15), ("A", 1e-18),
];

#[derive(Clone, Copy)]
struct Unit {
    name: &'static str,
    factor: f64,
    offset: f64,
    prefixable: bool,
    /// alternative acceptable factors (e.g. length of a year)
    alt: &'static [f64],
}
const fn u(name: &'static str, factor: f64, prefixable: bool) -> Unit {
    Unit { name, factor, offset: 0.0, prefixable, alt: &[] }
}

struct Quantity {
    name: &'static str,
    units: Vec<Unit>,
    /// factor / offset applied to a bare number
    bare: (f64, f64),
    /// `M<unit>` means mega for this unit (IEEE 488.2 exception)
    mega_exception: Option<&'static str>,
    /// suffixes the library documents for this quantity: each must be accepted
    must_accept: &'static [&'static str],
    /// converter: token -> value in SI base units
    conv32: fn(Token) -> Result<f64, i16>,
    conv64: fn(Token) -> Result<f64, i16>,
    /// decibel suffix units (the part after `DB`), if a Db<> conversion exists
    db_units: &'static [&'static str],
}

macro_rules! conv {
    ($t32:ty, $t64:ty) => {
        (
            (|t: Token| <$t32>::try_from(t).map(|q| q.value as f64).map_err(|e| e.get_code())) as fn(Token) -> Result<f64, i16>,
            (|t: Token| <$t64>::try_from(t).map(|q| q.value).map_err(|e| e.get_code())) as fn(Token) -> Result<f64, i16>,
        )
    };
}

fn quantities() -> Vec<Quantity> {
    use std::f64::consts::PI;
    let mut v = vec![];
    macro_rules! q {
        ($name:expr, $t32:ty, $t64:ty, $units:expr, $bare:expr, $mega:expr, $must:expr, $db:expr) => {{
            let (c32, c64) = conv!($t32, $t64);
            v.push(Quantity { name: $name, units: $units, bare: $bare, mega_exception: $mega, must_accept: $must, conv32: c32, conv64: c64, db_units: $db });
        }};
    }
    q!("Angle", q32::Angle, q64::Angle,
        vec![u("RAD", 1.0, true), u("DEG", PI / 180.0, false), u("GON", PI / 200.0, false), u("MNT", PI / 10800.0, false), u("SEC", PI / 648000.0, false), u("REV", 2.0 * PI, false)],
        (1.0, 0.0), None, &["RAD", "DEG", "MNT", "SEC", "REV", "GON"], &[]);
    q!("Capacitance", q32::Capacitance, q64::Capacitance, vec![u("F", 1.0, true)], (1.0, 0.0), None, &["F", "MF", "UF", "NF", "PF"], &[]);
    q!("ElectricCharge", q32::ElectricCharge, q64::ElectricCharge,
        vec![u("C", 1.0, true), u("A.HR", 3600.0, true), u("AH", 3600.0, true)], (1.0, 0.0), None, &["MAC", "KC", "C", "MC", "UC", "AH", "A.HR", "MAH", "MA.HR"], &[]);
    q!("ElectricCurrent", q32::ElectricCurrent, q64::ElectricCurrent, vec![u("A", 1.0, true)], (1.0, 0.0), None, &["KA", "A", "MA", "UA", "NA"], &["A", "MA", "UA"]);
    q!("ElectricPotential", q32::ElectricPotential, q64::ElectricPotential, vec![u("V", 1.0, true)], (1.0, 0.0), None, &["KV", "V", "MV", "UV"], &["V", "MV", "UV"]);
    q!("ElectricalConductance", q32::ElectricalConductance, q64::ElectricalConductance, vec![u("SIE", 1.0, true)], (1.0, 0.0), None, &["KSIE", "SIE", "MSIE", "USIE"], &[]);
    q!("ElectricalResistance", q32::ElectricalResistance, q64::ElectricalResistance, vec![u("OHM", 1.0, true)], (1.0, 0.0), Some("OHM"), &["GOHM", "MOHM", "KOHM", "OHM", "UOHM"], &[]);
    q!("Energy", q32::Energy, q64::Energy,
        vec![u("J", 1.0, true), u("EV", 1.602176634e-19, true), u("W.HR", 3600.0, true), u("WH", 3600.0, true)], (1.0, 0.0), None,
        &["MAJ", "KJ", "J", "MJ", "UJ", "MAW.HR", "WH", "W.HR", "MW.HR", "EV"], &[]);
    q!("Inductance", q32::Inductance, q64::Inductance, vec![u("H", 1.0, true)], (1.0, 0.0), None, &["H", "MH", "UH", "NH", "PH"], &[]);
    q!("Power", q32::Power, q64::Power, vec![u("W", 1.0, true)], (1.0, 0.0), None, &["MAW", "KW", "W", "MW", "UW"], &["W", "MW", "UW", "M"]);
    q!("Ratio", q32::Ratio, q64::Ratio, vec![u("PCT", 0.01, false), u("PPM", 1e-6, false)], (1.0, 0.0), None, &["PCT", "PPM"], &[""]);
    q!("ThermodynamicTemperature", q32::ThermodynamicTemperature, q64::ThermodynamicTemperature,
        vec![Unit { name: "CEL", factor: 1.0, offset: 273.15, prefixable: false, alt: &[] }, Unit { name: "FAR", factor: 5.0 / 9.0, offset: 459.67 * 5.0 / 9.0, prefixable: false, alt: &[] }, u("K", 1.0, true)],
        (1.0, 273.15), None, &["CEL", "FAR", "K"], &[]);
    q!("Time", q32::Time, q64::Time,
        vec![u("S", 1.0, true), u("MIN", 60.0, false), u("HR", 3600.0, false), u("D", 86400.0, false), Unit { name: "ANN", factor: 3.1536e7, offset: 0.0, prefixable: false, alt: &[3.15576e7, 3.155693e7, 3.155815e7] }],
        (1.0, 0.0), None, &["S", "MS", "US", "NS", "MIN", "HR", "D", "ANN"], &[]);
    q!("Frequency", q32::Frequency, q64::Frequency, vec![u("HZ", 1.0, true)], (1.0, 0.0), Some("HZ"), &["GHZ", "MHZ", "MAHZ", "KHZ", "HZ"], &[]);
    v
}

/// All (factor, offset, alternatives) the rules allow for an upper-case suffix.
fn derive(q: &Quantity, suffix: &[u8]) -> Vec<(f64, f64)> {
    let s = std::str::from_utf8(suffix).unwrap_or("\u{0}");
    let mut out = vec![];
    for un in &q.units {
        if s == un.name {
            out.push((un.factor, un.offset));
            for a in un.alt {
                out.push((*a, un.offset));
            }
        }
        if un.prefixable {
            if let Some(p) = s.strip_suffix(un.name) {
                if p == "M" && q.mega_exception == Some(un.name) {
                    out.push((1e6 * un.factor, 0.0));
                    continue;
                }
                for (m, f) in MULT {
                    if p == *m {
                        out.push((f * un.factor, 0.0));
                    }
                }
            }
        }
    }
    out
}

fn close(got: f64, want: f64, tol: f64) -> bool {
    if want == 0.0 {
        return got.abs() <= tol;
    }
    ((got - want) / want).abs() <= tol || (got - want).abs() <= tol * 1e-3
}

const LITERALS: &[(&str, f64)] = &[("1", 1.0), ("1.5", 1.5), ("-2.5E-3", -2.5e-3), ("0", 0.0), ("1e6", 1e6), (".001", 0.001)];

#[derive(Default)]
struct Acc {
    evals: u64,
    accepted: u64,
    rejected_nonderivable: u64,
    derivable_but_unsupported: u64,
}

/// Check one upper-case suffix string for one quantity. `case_variants` = also all 2^len cases.
fn check_suffix(q: &Quantity, suffix: &[u8], acc: &mut Acc) -> Vec<(String, String)> {
    let mut bad = vec![];
    let rules = derive(q, suffix);
    for (which, conv, tol) in [("f32", q.conv32, 2e-6), ("f64", q.conv64, 1e-12)] {
        acc.evals += 1;
        let tok = Token::DecimalNumericSuffixProgramData(b"1", suffix);
        let r = guarded(|| conv(tok));
        let r = match r {
            Ok(r) => r,
            Err(p) => {
                bad.push(("panic".into(), format!("{} <{which}> from `1 {}` panicked: {p}", q.name, esc(suffix))));
                continue;
            }
        };
        match r {
            Ok(_) => {
                acc.accepted += 1;
                if rules.is_empty() {
                    bad.push(("unknown-suffix-accepted".into(), format!("{} <{which}> accepts suffix `{}`, which SCPI does not define for it", q.name, esc(suffix))));
                    continue;
                }
                // all literals, all case variants
                let n = suffix.len().min(8);
                for mask in 0..(1u32 << n) {
                    let mut sfx = suffix.to_vec();
                    for (i, c) in sfx.iter_mut().enumerate().take(n) {
                        if mask & (1 << i) != 0 {
                            *c = c.to_ascii_lowercase();
                        }
                    }
                    for (lit, val) in LITERALS {
                        acc.evals += 1;
                        let tok = Token::DecimalNumericSuffixProgramData(lit.as_bytes(), &sfx);
                        match conv(tok) {
                            Err(e) => {
                                bad.push(("case-sensitive-suffix".into(), format!("{} <{which}>: `{lit} {}` is refused ({e}) although `{}` is accepted", q.name, esc(&sfx), esc(suffix))));
                                break;
                            }
                            Ok(got) => {
                                let ok = rules.iter().any(|(f, o)| close(got, val * f + o, tol));
                                if !ok {
                                    bad.push((
                                        "wrong-scale".into(),
                                        format!("{} <{which}>: `{lit} {}` = {got:e} in base units; SCPI gives {:e}", q.name, esc(&sfx), val * rules[0].0 + rules[0].1),
                                    ));
                                    break;
                                }
                            }
                        }
                    }
                    if !bad.is_empty() {
                        break;
                    }
                }
            }
            Err(_) => {
                if rules.is_empty() {
                    acc.rejected_nonderivable += 1;
                } else {
                    acc.derivable_but_unsupported += 1;
                    let s = std::str::from_utf8(suffix).unwrap_or("");
                    if q.must_accept.contains(&s) {
                        bad.push(("documented-suffix-rejected".into(), format!("{} <{which}> refuses its documented suffix `{s}`", q.name)));
                    }
                }
            }
        }
    }
    bad
}

fn check_bare_and_types(q: &Quantity) -> Vec<(String, String)> {
    let mut bad = vec![];
    for (which, conv, tol) in [("f32", q.conv32, 2e-6), ("f64", q.conv64, 1e-12)] {
        for (lit, val) in LITERALS {
            match conv(Token::DecimalNumericProgramData(lit.as_bytes())) {
                Ok(got) if close(got, val * q.bare.0 + q.bare.1, tol) => {}
                o => bad.push(("bare-number".into(), format!("{} <{which}>: bare `{lit}` = {:?}, expected {:e} (base unit)", q.name, o, val * q.bare.0 + q.bare.1))),
            }
        }
        for t in non_numeric_tokens() {
            if conv(t).is_ok() {
                bad.push(("non-numeric-accepted".into(), format!("{} <{which}> accepts non-numeric element {:?}", q.name, t)));
            }
        }
    }
    bad
}

/// Elements that are not decimal numerics: no quantity may accept any of them (this includes the
/// special-value mnemonics a bare float accepts).
pub fn non_numeric_tokens() -> Vec<Token<'static>> {
    let mut v = vec![Token::StringProgramData(b"1V"), Token::StringProgramData(b"1"), Token::NonDecimalNumericProgramData(1), Token::ArbitraryBlockData(b"1"), Token::ExpressionProgramData(b"1")];
    for c in [
        &b"V"[..], b"MAX", b"MIN", b"MAXimum", b"MINimum", b"maximum", b"min", b"INF", b"NINF", b"INFinity", b"NINFinity", b"inf", b"NAN", b"nan", b"DEF", b"DEFault", b"UP", b"DOWN", b"ON", b"OFF", b"E1", b"X",
    ] {
        v.push(Token::CharacterProgramData(c));
    }
    v
}

// ---- amplitude and decibel classification

fn amplitude_checks() -> Vec<(String, String)> {
    let mut bad = vec![];
    type A = Amplitude<q32::ElectricPotential>;
    for base in ["V", "MV", "KV", "UV", "v", "mV"] {
        for (tail, kind) in [("", 0), ("PK", 1), ("PP", 2), ("RMS", 3), ("pk", 1), ("Pp", 2), ("rms", 3)] {
            let s = format!("{base}{tail}");
            let factor = match base.to_ascii_uppercase().as_str() {
                "V" => 1.0,
                "MV" => 1e-3,
                "KV" => 1e3,
                _ => 1e-6,
            };
            match A::try_from(Token::DecimalNumericSuffixProgramData(b"2.5", s.as_bytes())) {
                Ok(a) => {
                    let (k, v) = match a {
                        Amplitude::None(x) => (0, x.value),
                        Amplitude::Peak(x) => (1, x.value),
                        Amplitude::PeakToPeak(x) => (2, x.value),
                        Amplitude::Rms(x) => (3, x.value),
                    };
                    if k != kind || !close(v as f64, 2.5 * factor, 2e-6) {
                        bad.push(("amplitude".into(), format!("`2.5 {s}` as Amplitude<ElectricPotential> = kind {k}, {v:e} V; expected kind {kind}, {:e} V", 2.5 * factor)));
                    }
                }
                Err(e) => bad.push(("amplitude".into(), format!("`2.5 {s}` as Amplitude<ElectricPotential> is refused ({})", e.get_code()))),
            }
        }
    }
    for s in ["PK", "VPKK", "XPK", "VRMSS", "RMS", "APP"] {
        if A::try_from(Token::DecimalNumericSuffixProgramData(b"1", s.as_bytes())).is_ok() {
            bad.push(("amplitude-unknown-accepted".into(), format!("`1 {s}` is accepted as Amplitude<ElectricPotential>")));
        }
    }
    for t in non_numeric_tokens() {
        if A::try_from(t).is_ok() {
            bad.push(("non-numeric-accepted".into(), format!("Amplitude<ElectricPotential> accepts non-numeric element {:?}", t)));
        }
    }
    if !matches!(A::try_from(Token::DecimalNumericProgramData(b"2.5")), Ok(Amplitude::None(x)) if x.value == 2.5) {
        bad.push(("amplitude".into(), "bare `2.5` as Amplitude<ElectricPotential> is not None(2.5 V)".into()));
    }
    bad
}

fn db_checks() -> Vec<(String, String)> {
    let mut bad = vec![];
    macro_rules! dbq {
        ($qt:ty, $name:expr, $log:expr, $lin:expr) => {{
            type D = Db<f32, $qt>;
            for s in $log {
                for variant in [s.to_string(), s.to_ascii_lowercase()] {
                    match D::try_from(Token::DecimalNumericSuffixProgramData(b"-12.5", variant.as_bytes())) {
                        Ok(Db::Logarithmic(v, _)) if v == -12.5 => {}
                        Ok(Db::Logarithmic(v, _)) => bad.push(("decibel-number-altered".into(), format!("`-12.5 {variant}` as Db<f32,{}> carries {v}", $name))),
                        Ok(_) => bad.push(("decibel-misclassified".into(), format!("`-12.5 {variant}` as Db<f32,{}> is not classified logarithmic", $name))),
                        Err(e) => bad.push(("decibel-rejected".into(), format!("`-12.5 {variant}` as Db<f32,{}> is refused ({})", $name, e.get_code()))),
                    }
                }
            }
            for (s, f) in $lin {
                match D::try_from(Token::DecimalNumericSuffixProgramData(b"2", s.as_bytes())) {
                    Ok(Db::Linear(x)) if close(x.value as f64, 2.0 * f, 2e-6) => {}
                    o => bad.push(("decibel-linear".into(), format!("`2 {s}` as Db<f32,{}> = {}", $name, match o { Ok(Db::Linear(x)) => format!("Linear({:e})", x.value), Ok(Db::None(_)) => "None".into(), Ok(Db::Logarithmic(..)) => "Logarithmic".into(), Err(e) => format!("error {}", e.get_code()) }))),
                }
            }
            match D::try_from(Token::DecimalNumericProgramData(b"3.5")) {
                Ok(Db::None(v)) if v == 3.5 => {}
                _ => bad.push(("decibel-bare".into(), format!("bare `3.5` as Db<f32,{}> is not None(3.5)", $name))),
            }
            for s in ["DBX", "DBB", "DBVV", "XDBV", "DBKV"] {
                if let Ok(Db::Logarithmic(..)) = D::try_from(Token::DecimalNumericSuffixProgramData(b"1", s.as_bytes())) {
                    bad.push(("decibel-unknown-accepted".into(), format!("`1 {s}` is classified logarithmic for {}", $name)));
                }
            }
            if D::try_from(Token::CharacterProgramData(b"DBV")).is_ok() {
                bad.push(("non-numeric-accepted".into(), format!("character data accepted as Db<f32,{}>", $name)));
            }
            for t in non_numeric_tokens() {
                if D::try_from(t).is_ok() {
                    bad.push(("non-numeric-accepted".into(), format!("Db<f32,{}> accepts non-numeric element {:?}", $name, t)));
                }
            }
        }};
    }
    dbq!(q32::ElectricPotential, "ElectricPotential", ["DBV", "DBMV", "DBUV"], [("V", 1.0), ("MV", 1e-3)]);
    dbq!(q32::ElectricCurrent, "ElectricCurrent", ["DBA", "DBMA", "DBUA"], [("A", 1.0), ("UA", 1e-6)]);
    dbq!(q32::Power, "Power", ["DBW", "DBMW", "DBM", "DBUW"], [("W", 1.0), ("KW", 1e3)]);
    dbq!(q32::Ratio, "Ratio", ["DB"], [("PCT", 0.01)]);
    bad
}

pub fn run(ctx: &'static Ctx) -> i32 {
    let qs = quantities();
    // (a) all strings over letters + `.` + `/`
    let alpha28: &[u8] = b"ABCDEFGHIJKLMNOPQRSTUVWXYZ./";
    let vocab: &[u8] = b"ACDEFGHIJKMNOPRSTUVWZ.";
    let n_all = ctx.tier.pick(3u32, 4u32);
    let n_voc = ctx.tier.pick(4u32, 6u32);
    let t_all = count_upto(alpha28.len() as u64, n_all) - 1;
    let t_voc = count_upto(vocab.len() as u64, n_voc) - 1;
    let per_q = t_all + t_voc;
    let total = per_q * qs.len() as u64;
    let accs = par_sweep(
        ctx,
        total,
        SweepOpts {
            name: "C18 suffix strings",
            chunk: 1 << 13,
            hang_secs: 30,
        },
        Acc::default,
        |i, acc: &mut Acc| {
            let q = &qs[(i / per_q) as usize];
            let j = i % per_q;
            let mut buf = [0u8; 8];
            let l = if j < t_all { nth_string(alpha28, j + 1, &mut buf) } else { nth_string(vocab, j - t_all + 1, &mut buf) };
            for (k, w) in check_suffix(q, &buf[..l], acc) {
                ctx.violation(i, &k, &w, json!({"kind": "suffix", "quantity": q.name, "suffix": esc(&buf[..l])}));
            }
        },
        |i| json!({"kind": "suffix-index", "index": i}),
    );
    let mut acc = Acc::default();
    for a in accs {
        acc.evals += a.evals;
        acc.accepted += a.accepted;
        acc.rejected_nonderivable += a.rejected_nonderivable;
        acc.derivable_but_unsupported += a.derivable_but_unsupported;
    }
    let mut order = total;
    // documented suffixes (any length), 12-character non-suffixes, bare numbers, non-numeric elements
    for q in &qs {
        for s in q.must_accept {
            for (k, w) in check_suffix(q, s.as_bytes(), &mut acc) {
                order += 1;
                ctx.violation(order, &k, &w, json!({"kind": "suffix", "quantity": q.name, "suffix": s}));
            }
        }
        for base in q.must_accept {
            let mut exts: Vec<String> = vec![];
            for c in "ABCDEFGHIJKLMNOPQRSTUVWXYZ0123456789./-".chars() {
                exts.push(format!("{base}{c}"));
                exts.push(format!("{c}{base}"));
            }
            for e in ["S.HR", ".HR", "XX", "12", base] {
                exts.push(format!("{base}{e}"));
            }
            for e in exts {
                if e.len() > 12 {
                    continue;
                }
                for (k, w) in check_suffix(q, e.as_bytes(), &mut acc) {
                    order += 1;
                    ctx.violation(order, &k, &w, json!({"kind": "suffix", "quantity": q.name, "suffix": e}));
                }
            }
        }
        for s in ["ABCDEFGHIJKL", "VOLTVOLTVOLT", "HZHZHZHZHZHZ", "MAMAMAMAMAMA", "S/S/S/S/S/S/", "V-1", "M2", "KKV", "MMV", "V.", ".V", "/V", "V/"] {
            for (k, w) in check_suffix(q, s.as_bytes(), &mut acc) {
                order += 1;
                ctx.violation(order, &k, &w, json!({"kind": "suffix", "quantity": q.name, "suffix": s}));
            }
        }
        for (k, w) in check_bare_and_types(q) {
            order += 1;
            ctx.violation(order, &k, &w, json!({"kind": "bare", "quantity": q.name}));
        }
    }
    for (k, w) in amplitude_checks() {
        order += 1;
        ctx.violation(order, &k, &w, json!({"kind": "amplitude"}));
    }
    for (k, w) in db_checks() {
        order += 1;
        ctx.violation(order, &k, &w, json!({"kind": "decibel"}));
    }
    let mut c = cov();
    c.insert("evaluations".into(), json!(acc.evals));
    c.insert("distinct_nontrivial".into(), json!(acc.accepted + acc.derivable_but_unsupported));
    c.insert("rule".into(), json!(format!("for each of {} quantities x {{f32, f64}} storage: every upper-case suffix string of length 1..{n_all} over the 26 letters + `.` `/` and of length 1..{n_voc} over the SCPI unit vocabulary `ACDEFGHIJKMNOPRSTUVWZ.` ({per_q} strings per quantity), plus every documented suffix, every one-character prefix/suffix extension and several longer extensions of each documented suffix (up to 12 characters), 12-character and malformed suffixes; every accepted suffix is re-run in all 2^len letter-case variants x literals {{1, 1.5, -2.5E-3, 0, 1e6, .001}}; bare numbers; non-numeric elements. Oracle (independent of the implementation's tables): suffix = [multiplier] unit with multipliers EX PE T G MA K M U N P F A (M = milli, MA = mega, MHZ/MOHM = mega), unit names per quantity with their SI factors (CEL/FAR offsets, ANN accepts 365 d / 365.25 d / tropical / sidereal); accepted => derivable and value x factor within 2e-6 (f32) / 1e-12 (f64); non-derivable => refused; documented suffixes must be accepted; Amplitude PK/PP/RMS and Db DB* classification with the number unchanged. Distinct non-trivial = accepted (quantity, suffix, storage) triples + derivable-but-unsupported ones", qs.len())));
    c.insert("exhaustive".into(), json!(true));
    c.insert("accepted_suffix_conversions".into(), json!(acc.accepted));
    c.insert("nonderivable_rejected".into(), json!(acc.rejected_nonderivable));
    c.insert("derivable_but_not_supported_(no_verdict)".into(), json!(acc.derivable_but_unsupported));
    c.insert("samples".into(), json!(["1 MJ -> 1e-3 J", "1.5 mhz -> 1.5e6 Hz", "1 MOHM -> 1e6 ohm", "1 MA -> 1e-3 A", "1 FAR -> 255.928 K", "1 MIN -> 60 s", "2.5 VPK -> Peak(2.5 V)", "-12.5 DBM -> Logarithmic(-12.5)"]));
    ctx.finish(
        "exploration",
        c,
        vec![
            "a bare temperature is taken in degrees Celsius (the SCPI default temperature unit); all other quantities in their SI unit".into(),
            "suffixes the rules allow but the library does not implement (e.g. GV) give no verdict; suffixes documented in the library's tables must be accepted".into(),
        ],
    )
}

pub fn replay(case: &Value) -> Result<String, String> {
    let qs = quantities();
    let bad = match case["kind"].as_str() {
        Some("suffix") => {
            let q = qs.iter().find(|q| q.name == case["quantity"].as_str().unwrap_or("")).unwrap_or_else(|| engine_failure("bad C18 quantity"));
            let mut acc = Acc::default();
            check_suffix(q, &unesc(case["suffix"].as_str().unwrap_or("")), &mut acc)
        }
        Some("bare") => {
            let q = qs.iter().find(|q| q.name == case["quantity"].as_str().unwrap_or("")).unwrap_or_else(|| engine_failure("bad C18 quantity"));
            check_bare_and_types(q)
        }
        Some("amplitude") => amplitude_checks(),
        Some("decibel") => db_checks(),
        _ => engine_failure("bad C18 replay"),
    };
    match bad.first() {
        Some((k, w)) => Err(format!("{k}: {w}")),
        None => Ok("conforms".into()),
    }
}
