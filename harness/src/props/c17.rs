//! C17 – numeric_value parameters resolve MIN/MAX/DEF and never leave [min,max].
//! Exhaustive over (token, underlying type, (min,max,default) configuration) grids.

use crate::core::*;
use crate::refmodel::mnemonic::ref_compare_keyword;
use scpi::parser::tokenizer::Token;
use scpi::units::uom::si::f64 as q64;
use scpi::units as q32;
use scpi_contrib::scpi1999::{NumericBuilder, NumericValue, NumericValueDefaults};
use serde_json::{json, Value};
use std::fmt::Debug;

const KEYWORDS: [(&str, u8); 5] = [("MAXimum", 0), ("MINimum", 1), ("DEFault", 2), ("UP", 3), ("DOWN", 4)];

fn keyword_of(s: &[u8]) -> Option<u8> {
    KEYWORDS.iter().find(|(k, _)| ref_compare_keyword(k.as_bytes(), s) == Some(true)).map(|x| x.1)
}

fn variant_index<T>(v: &NumericValue<T>) -> Option<u8> {
    match v {
        NumericValue::Maximum => Some(0),
        NumericValue::Minimum => Some(1),
        NumericValue::Default => Some(2),
        NumericValue::Up => Some(3),
        NumericValue::Down => Some(4),
        NumericValue::Value(_) => None,
    }
}

fn case_patterns(s: &str) -> Vec<Vec<u8>> {
    let b = s.as_bytes();
    let n = b.len();
    let pats: Vec<u32> = if n <= 4 { (0..(1u32 << n)).collect() } else { vec![0, (1 << n) - 1, 0x5555 & ((1 << n) - 1), 0xaaaa & ((1 << n) - 1), 1, 1 << (n - 1)] };
    pats.iter()
        .map(|p| b.iter().enumerate().map(|(i, c)| if p & (1 << i) != 0 { c.to_ascii_uppercase() } else { c.to_ascii_lowercase() }).collect())
        .collect()
}

/// The token texts (each lexed kind given explicitly).
pub fn token_table() -> Vec<(u8, Vec<u8>, Vec<u8>)> {
    // kind: 0 chr, 1 num, 2 num+suffix(a,b), 3 nondec(value in a as decimal text), 4 str, 5 block, 6 expr
    let mut v: Vec<(u8, Vec<u8>, Vec<u8>)> = vec![];
    for (k, _) in KEYWORDS {
        let short: String = k.chars().filter(|c| c.is_ascii_uppercase()).collect();
        for c in case_patterns(&short) {
            v.push((0, c, vec![]));
        }
        for c in case_patterns(k) {
            v.push((0, c, vec![]));
        }
        for l in 1..k.len() {
            v.push((0, k.as_bytes()[..l].to_vec(), vec![]));
        }
        for x in ["1", "2", "X", "_"] {
            v.push((0, format!("{short}{x}").into_bytes(), vec![]));
            v.push((0, format!("{k}{x}").into_bytes(), vec![]));
        }
    }
    for c in ["INF", "NINF", "NAN", "INFinity", "ninfinity", "ON", "OFF", "ABC", "D", "U", "DOW", "UPP", "MAXI", "DEFA", "DEFAUL", "MINIMU"] {
        v.push((0, c.as_bytes().to_vec(), vec![]));
    }
    for n in [
        "0", "1", "-1", "42", "255", "256", "-129", "127", "32767", "32768", "-32769", "2147483647", "2147483648", "4294967296", "18446744073709551615", "18446744073709551616", "0.4", "0.5", "0.6", "254.6", "255.4",
        "1.5", "-1.5", "1e3", "1E-3", "1e9", "1e10", "-1e6", "1e38", "1e39", "1e308", "1e309", "-1e309", "1e-400", ".5", "5.", "+7", "-0", "-0.0", "1000.0",
    ] {
        v.push((1, n.as_bytes().to_vec(), vec![]));
    }
    for (n, s) in [("1", "HZ"), ("1.5", "KHZ"), ("2", "MHZ"), ("1", "S"), ("1", "MS"), ("2", "MIN"), ("1", "V"), ("1", "XYZ"), ("1e3", "hz"), ("-1", "S")] {
        v.push((2, n.as_bytes().to_vec(), s.as_bytes().to_vec()));
    }
    for n in ["0", "42", "255", "256", "65536"] {
        v.push((3, n.as_bytes().to_vec(), vec![]));
    }
    v.push((4, b"MAX".to_vec(), vec![]));
    v.push((4, b"1".to_vec(), vec![]));
    v.push((5, b"MAX".to_vec(), vec![]));
    v.push((6, b"1,2".to_vec(), vec![]));
    v
}

fn mk_token<'a>(e: &'a (u8, Vec<u8>, Vec<u8>)) -> Token<'a> {
    match e.0 {
        0 => Token::CharacterProgramData(&e.1),
        1 => Token::DecimalNumericProgramData(&e.1),
        2 => Token::DecimalNumericSuffixProgramData(&e.1, &e.2),
        3 => Token::NonDecimalNumericProgramData(std::str::from_utf8(&e.1).unwrap().parse().unwrap()),
        4 => Token::StringProgramData(&e.1),
        5 => Token::ArbitraryBlockData(&e.1),
        _ => Token::ExpressionProgramData(&e.1),
    }
}

fn show_tok(e: &(u8, Vec<u8>, Vec<u8>)) -> String {
    match e.0 {
        2 => format!("{} {}", esc(&e.1), esc(&e.2)),
        3 => format!("#(nondecimal {})", esc(&e.1)),
        4 => format!("\"{}\"", esc(&e.1)),
        5 => format!("#block({})", esc(&e.1)),
        6 => format!("({})", esc(&e.1)),
        _ => esc(&e.1),
    }
}

#[derive(Default)]
pub struct Acc {
    pub evals: u64,
    pub resolved: u64,
    pub range_errors: u64,
    pub keyword_tokens: u64,
}

/// Check one underlying type. `grid`: ascending representative values; `same`: equality incl. NaN-free.
fn check_type<T>(ctx: &Ctx, base: u64, name: &str, grid: &[T], nan: Option<T>, acc: &mut Acc)
where
    T: Copy + PartialOrd + Debug + NumericValueDefaults + for<'a> TryFrom<Token<'a>, Error = scpi::error::Error>,
{
    let table = token_table();
    let mut k = 0u64;
    // configurations: min <= max from the grid, default none / min / max / a middle point
    let mut configs: Vec<(T, T, Option<T>)> = vec![];
    for i in 0..grid.len() {
        for j in i..grid.len() {
            configs.push((grid[i], grid[j], None));
            configs.push((grid[i], grid[j], Some(grid[i])));
            configs.push((grid[i], grid[j], Some(grid[j])));
            if j > i + 1 {
                configs.push((grid[i], grid[j], Some(grid[(i + j) / 2])));
            }
        }
    }
    let resolve = |ctx: &Ctx, order: u64, nv: NumericValue<T>, what: &str, acc: &mut Acc| {
        for (ci, (min, max, def)) in configs.iter().enumerate() {
            acc.evals += 1;
            let want: Result<T, i16> = match nv {
                NumericValue::Maximum => Ok(*max),
                NumericValue::Minimum => Ok(*min),
                NumericValue::Default => def.ok_or(-224),
                NumericValue::Up | NumericValue::Down => Err(-224),
                NumericValue::Value(v) => {
                    if v >= *min && v <= *max {
                        Ok(v)
                    } else {
                        Err(-222)
                    }
                }
            };
            let mut b = NumericBuilder::new(nv, *max, *min);
            if let Some(d) = def {
                b = b.default(*d);
            }
            let got = b.finish().map_err(|e| e.get_code());
            let mut b2 = nv.build().max(*max).min(*min);
            if let Some(d) = def {
                b2 = b2.default(*d);
            }
            let got2 = b2.finish().map_err(|e| e.get_code());
            let got3 = if def.is_none() {
                Some(nv.finish_with(*max, *min).map_err(|e| e.get_code()))
            } else {
                // the default configured *before* the bounds, and between them
                let d = def.unwrap();
                let a = nv.build().default(d).max(*max).min(*min).finish().map_err(|e| e.get_code());
                let b = nv.build().max(*max).default(d).min(*min).finish().map_err(|e| e.get_code());
                let c = NumericBuilder::new(nv, *max, *min).default(d).max(*max).finish().map_err(|e| e.get_code());
                let same = |x: &Result<T, i16>, y: &Result<T, i16>| match (x, y) {
                    (Ok(p), Ok(q)) => p == q,
                    (Err(p), Err(q)) => p == q,
                    _ => false,
                };
                if same(&a, &b) && same(&b, &c) {
                    Some(a)
                } else {
                    Some(Err(i16::MIN))
                }
            };
            let eq = |a: &Result<T, i16>, b: &Result<T, i16>| match (a, b) {
                (Ok(x), Ok(y)) => x == y,
                (Err(x), Err(y)) => x == y,
                _ => false,
            };
            match &got {
                Ok(_) => acc.resolved += 1,
                Err(_) => acc.range_errors += 1,
            }
            let case = json!({"kind": "resolve", "type": name, "what": what, "config": ci});
            if !eq(&got, &want) || !eq(&got2, &want) || got3.as_ref().map_or(false, |g| !eq(g, &want)) {
                let key = match (&want, &got) {
                    (Err(-222), Ok(_)) => "out-of-range-value-resolved",
                    (Ok(_), Err(_)) => "in-range-value-refused",
                    (Err(-224), Ok(_)) => "unconfigured-keyword-resolved",
                    _ => "wrong-resolution",
                };
                ctx.violation(order, key, &format!("NumericValue<{name}> {what} with min={:?} max={:?} default={:?}: finish() = {:?} / {:?} / {:?}, expected {:?}", min, max, def, got, got2, got3, want), case);
                return;
            }
            // a successfully resolved value always lies within [min, max]
            if let Ok(v) = &got {
                if !(v >= min && v <= max) {
                    ctx.violation(order, "resolved-outside-bounds", &format!("NumericValue<{name}> {what} resolved to {:?} outside [{:?}, {:?}]", v, min, max), case);
                    return;
                }
            }
        }
    };
    for e in &table {
        k += 1;
        acc.evals += 1;
        let tok = mk_token(e);
        let nv = NumericValue::<T>::try_from(tok);
        let kw = if e.0 == 0 { keyword_of(&e.1) } else { None };
        let case = json!({"kind": "token", "type": name, "token": show_tok(e)});
        match kw {
            Some(w) => {
                acc.keyword_tokens += 1;
                match &nv {
                    Ok(v) if variant_index(v) == Some(w) => {}
                    other => {
                        ctx.violation(base + k, "keyword-not-recognised", &format!("`{}` as NumericValue<{name}> = {:?}, expected keyword variant {}", show_tok(e), other.as_ref().map(|v| variant_index(v)).map_err(|e| e.get_code()), KEYWORDS[w as usize].0), case);
                        continue;
                    }
                }
            }
            None => {
                // must convert exactly as the underlying type
                let under = T::try_from(tok);
                let same = match (&nv, &under) {
                    (Ok(NumericValue::Value(a)), Ok(b)) => a == b || (a != a && b != b),
                    (Err(a), Err(b)) => a.get_code() == b.get_code(),
                    _ => false,
                };
                if !same {
                    let key = if matches!(&nv, Ok(v) if variant_index(v).is_some()) { "near-miss-keyword-accepted" } else { "differs-from-underlying-type" };
                    ctx.violation(
                        base + k,
                        key,
                        &format!("`{}` as NumericValue<{name}> = {:?}, the underlying type gives {:?}", show_tok(e), nv.as_ref().map(|v| format!("{:?}", v)).map_err(|e| e.get_code()), under.as_ref().map_err(|e| e.get_code())),
                        case,
                    );
                    continue;
                }
            }
        }
        if let Ok(v) = nv {
            resolve(ctx, base + k, v, &format!("from `{}`", show_tok(e)), acc);
        }
    }
    // values straight from the grid (exactly on the bounds) and NaN
    for (gi, g) in grid.iter().enumerate() {
        k += 1;
        resolve(ctx, base + k, NumericValue::Value(*g), &format!("Value(grid[{gi}])"), acc);
    }
    if let Some(n) = nan {
        k += 1;
        resolve(ctx, base + k, NumericValue::Value(n), "Value(NaN)", acc);
    }
    for nv in [NumericValue::Maximum, NumericValue::Minimum, NumericValue::Default, NumericValue::Up, NumericValue::Down] {
        k += 1;
        resolve(ctx, base + k, nv, &format!("{:?}", variant_index(&nv)), acc);
    }
}

pub fn run_all(ctx: &Ctx, acc: &mut Acc) {
    use scpi::units::uom::si::frequency::hertz;
    use scpi::units::uom::si::time::second;
    check_type::<u8>(ctx, 0, "u8", &[0, 1, 42, 100, 200, 254, 255], None, acc);
    check_type::<i16>(ctx, 1 << 20, "i16", &[i16::MIN, -32767, -1, 0, 1, 32766, i16::MAX], None, acc);
    check_type::<i32>(ctx, 2 << 20, "i32", &[i32::MIN, -1000, -1, 0, 42, 2147483646, i32::MAX], None, acc);
    check_type::<u64>(ctx, 3 << 20, "u64", &[0, 1, 255, 65536, 4294967296, u64::MAX - 1, u64::MAX], None, acc);
    check_type::<f32>(ctx, 4 << 20, "f32", &[f32::NEG_INFINITY, f32::MIN, -1.5, 0.0, 1.5, f32::MAX, f32::INFINITY], Some(f32::NAN), acc);
    check_type::<f64>(ctx, 5 << 20, "f64", &[f64::NEG_INFINITY, f64::MIN, -1.5, 0.0, 1.5, f64::MAX, f64::INFINITY], Some(f64::NAN), acc);
    let fg: Vec<q32::Frequency> = [-1e6f32, -1.0, 0.0, 0.5, 1.0, 1e3, 1e9].iter().map(|v| q32::Frequency::new::<hertz>(*v)).collect();
    check_type::<q32::Frequency>(ctx, 6 << 20, "Frequency<f32>", &fg, None, acc);
    let tg: Vec<q64::Time> = [-1e6f64, -1.0, 0.0, 0.001, 1.0, 120.0, 1e9].iter().map(|v| q64::Time::new::<second>(*v)).collect();
    check_type::<q64::Time>(ctx, 7 << 20, "Time<f64>", &tg, None, acc);
}

pub fn run(ctx: &'static Ctx) -> i32 {
    let mut acc = Acc::default();
    run_all(ctx, &mut acc);
    let mut c = cov();
    c.insert("evaluations".into(), json!(acc.evals));
    c.insert("distinct_nontrivial".into(), json!(acc.keyword_tokens + acc.range_errors));
    c.insert("rule".into(), json!(format!("{} tokens (every case pattern of short and long form of MAXimum MINimum DEFault UP DOWN, every prefix and suffixed near miss, INF/NINF/NAN, 40 decimal literals around every bound and half, suffixed numbers, non-decimal values, string/block/expression) x 8 underlying types (u8 i16 i32 u64 f32 f64 Frequency<f32> Time<f64>): keyword spellings (reference keyword matcher) must give the keyword variant, everything else must convert exactly as the underlying type (same value or same error). Every resulting NumericValue, every grid value, NaN and each keyword variant is resolved against every (min <= max, default none/min/max/middle) configuration over a 7-point grid per type (incl. type extremes, +-inf, min = max) through NumericBuilder::new, build() with default() called before, between and after max()/min(), and finish_with: MAX -> max, MIN -> min, DEF -> default or -224, UP/DOWN -> -224, value -> itself iff min <= v <= max else -222, NaN never resolves, every resolved value lies within [min,max]. Distinct non-trivial = keyword tokens + resolutions that end in an error", token_table().len())));
    c.insert("exhaustive".into(), json!(true));
    c.insert("resolutions_ok".into(), json!(acc.resolved));
    c.insert("resolutions_err".into(), json!(acc.range_errors));
    c.insert("samples".into(), json!(["`maximum` as NumericValue<u8> -> Maximum -> max", "`DEF` with no default -> -224", "`256` as NumericValue<u8> -> -222 from the underlying conversion", "Value(NaN) with min=-inf max=+inf -> -222", "`MAXI` -> not a keyword -> -104"]));
    ctx.finish(
        "exploration",
        c,
        vec![
            "configurations keep min <= default <= max (otherwise 'the configured default' and 'within [min,max]' contradict each other)".into(),
            "non-keyword tokens are compared differentially with the underlying type's own conversion (decided by C07/C08/C18)".into(),
        ],
    )
}

pub fn replay(_case: &Value) -> Result<String, String> {
    let ctx2: &'static Ctx = Box::leak(Box::new(Ctx::new("C17", Tier::Quick)));
    let mut acc = Acc::default();
    run_all(ctx2, &mut acc);
    if ctx2.violation_count() > 0 {
        Err(format!("{} cases of the C17 grid still fail", ctx2.violation_count()))
    } else {
        Ok("conforms".into())
    }
}
