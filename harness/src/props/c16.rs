//! C16 – status byte and IEEE 488.2 common commands follow the 488.2 status model.
//! Three stateright slices over the documented device, each to fixpoint.

use crate::core::*;
use crate::lockstep::Mismatch;
use crate::props::c15::reg_actions;
use crate::scpimodel::*;
use serde_json::Value;

fn mav(a: Act) -> Act {
    match a {
        Act::Msg { units, .. } => Act::Msg { units, mav: true },
        x => x,
    }
}

/// S1: ESR / ESE / SRE / MAV / error queue / common commands.
pub fn s1(tier: Tier) -> Vec<Act> {
    let mut a = vec![];
    let vals: Vec<u8> = tier.pick(vec![0, 1, 4, 16, 32, 255], vec![0, 1, 2, 4, 8, 16, 32, 64, 128, 255, 3, 48, 60, 191]);
    for &v in &vals {
        a.push(msg1(&format!("*ESE {v}"), U::EseSet(v)));
    }
    let svals: Vec<u8> = tier.pick(vec![0, 4, 16, 32, 64, 255], vec![0, 4, 8, 16, 32, 64, 128, 255, 48, 96, 191]);
    for &v in &svals {
        a.push(msg1(&format!("*SRE {v}"), U::SreSet(v)));
    }
    a.push(msg1("*ESE?", U::EseQ));
    a.push(msg1("*SRE?", U::SreQ));
    a.push(msg1("*ESR?", U::Esr));
    a.push(msg1("*STB?", U::Stb));
    a.push(mav(msg1("*STB?", U::Stb)));
    a.push(msg1("*CLS", U::Cls));
    a.push(msg1("*OPC", U::Opc));
    a.push(msg1("*OPC?", U::OpcQ));
    a.push(msg1("*TST?", U::Tst));
    a.push(msg1("*RST", U::Rst));
    a.push(msg1("*WAI", U::Wai));
    a.push(Act::SetTst(Some(-330)));
    a.push(Act::SetTst(None));
    // one failing message per ESR class
    let fails: Vec<Unit> = tier.pick(
        vec![
            unit("FOO", U::Fail(RefErr::lib(-113))),
            unit("U8 256", U::Fail(RefErr::lib(-222))),
            unit("RAISE -400", U::Fail(RefErr::std(-400))),
            unit("RAISEX", U::Fail(RefErr::std(-300).with_ext(b"ext"))),
        ],
        vec![
            unit("FOO", U::Fail(RefErr::lib(-113))),
            unit("U8 256", U::Fail(RefErr::lib(-222))),
            unit("RAISE -400", U::Fail(RefErr::std(-400))),
            unit("RAISEX", U::Fail(RefErr::std(-300).with_ext(b"ext"))),
            unit("RAISE -500", U::Fail(RefErr::std(-500))),
            unit("RAISE -600", U::Fail(RefErr::std(-600))),
            unit("RAISE -700", U::Fail(RefErr::std(-700))),
        ],
    );
    for f in &fails {
        a.push(msg(vec![f.clone()]));
    }
    a.push(msg1("SYST:ERR?", U::ErrNext));
    // combinations within one message
    a.push(msg(vec![unit("*STB?", U::Stb), unit("*STB?", U::Stb)]));
    a.push(mav(msg(vec![unit("*ESR?", U::Esr), unit("*STB?", U::Stb)])));
    a.push(msg(vec![unit("*OPC", U::Opc), unit("*CLS", U::Cls), unit("*STB?", U::Stb)]));
    a.push(msg(vec![unit("*CLS", U::Cls), unit("*ESE?", U::EseQ), unit("*SRE?", U::SreQ), unit("*ESR?", U::Esr), unit("SYST:ERR:COUN?", U::ErrCount)]));
    a.push(msg(vec![unit("*RST", U::Rst), unit("*WAI", U::Wai), unit("*STB?", U::Stb), unit("*ESR?", U::Esr)]));
    a.push(msg(vec![unit("*TST?", U::Tst), unit("*OPC?", U::OpcQ)]));
    // message-available is reported by the interface, not by the device: no command in front of
    // *STB? inside the same message may change what *STB? reports for it
    for (t, u) in [
        ("*CLS", U::Cls),
        ("*RST", U::Rst),
        ("*WAI", U::Wai),
        ("*OPC", U::Opc),
        ("*OPC?", U::OpcQ),
        ("*TST?", U::Tst),
        ("*ESR?", U::Esr),
        ("*ESE?", U::EseQ),
        ("*SRE 16", U::SreSet(16)),
        ("*ESE 32", U::EseSet(32)),
        ("SYST:ERR?", U::ErrNext),
        ("STAT:PRES", U::Preset),
    ] {
        a.push(mav(msg(vec![unit(t, u), unit("*STB?", U::Stb)])));
    }
    a
}

/// S2: OPER / QUES summary bits in STB. OPER ranges over the subsets of {bit 0, bit 15} (the
/// unusable bit 15 must never contribute to, nor mask, the summary), QUES over one bit.
pub fn s2(tier: Tier) -> Vec<Act> {
    let mut a = vec![];
    let oper_vals: Vec<u16> = vec![0, 1, 0x8000, 0x8001];
    let ques_vals: Vec<u16> = tier.pick(vec![0, 1], vec![0, 1 << 5]);
    a.extend(reg_actions(Which::Oper, &oper_vals, true, false));
    a.extend(reg_actions(Which::Ques, &ques_vals, false, false));
    a.push(msg1("*CLS", U::Cls));
    a.push(msg1("STAT:PRES", U::Preset));
    for v in [0u8, 8, 128, 136] {
        a.push(msg1(&format!("*SRE {v}"), U::SreSet(v)));
    }
    a.push(msg1("*STB?", U::Stb));
    a.push(mav(msg1("*STB?", U::Stb)));
    a
}

/// S4: all five sources of the status byte together (error queue, QUES, OPER, ESB, MAV): every
/// combination is reachable, so that no source may hide or reset another.
pub fn s4() -> Vec<Act> {
    let mut a = vec![];
    a.push(msg1("FOO", U::Fail(RefErr::lib(-113))));
    a.push(msg1("SYST:ERR?", U::ErrNext));
    for w in [Which::Oper, Which::Ques] {
        let n = if w == Which::Oper { "OPER" } else { "QUES" };
        a.push(Act::SetCond(w, 0));
        a.push(Act::SetCond(w, 1));
        a.push(msg1(&format!("STAT:{n}:ENAB 1"), U::RegSet(w, Field::Enable, 1)));
        a.push(msg1(&format!("STAT:{n}:ENAB 0"), U::RegSet(w, Field::Enable, 0)));
        a.push(msg1(&format!("STAT:{n}?"), U::RegQ(w, Field::Event)));
    }
    a.push(msg1("*ESE 32", U::EseSet(32)));
    a.push(msg1("*ESE 0", U::EseSet(0)));
    a.push(msg1("*ESR?", U::Esr));
    for v in [0u8, 4, 8, 32, 128, 16, 255] {
        a.push(msg1(&format!("*SRE {v}"), U::SreSet(v)));
    }
    a.push(msg1("*STB?", U::Stb));
    a.push(mav(msg1("*STB?", U::Stb)));
    a.push(msg1("*CLS", U::Cls));
    a
}

/// S3: every value written to *ESE (resp. *SRE) and read back, plus out-of-range and rounding.
/// Two separate slices so that the state space is 256 values, not their product.
pub fn s3(ese: bool) -> Vec<Act> {
    let mut a = vec![];
    let n = if ese { "*ESE" } else { "*SRE" };
    let set = |v: u8| if ese { U::EseSet(v) } else { U::SreSet(v) };
    let q = || if ese { U::EseQ } else { U::SreQ };
    for v in 0..=255u16 {
        a.push(msg(vec![unit(&format!("{n} {v}"), set(v as u8)), unit(&format!("{n}?"), q())]));
    }
    a.push(msg1(&format!("{n} -1"), U::Fail(RefErr::lib(-222))));
    a.push(msg1(&format!("{n} 256"), U::Fail(RefErr::lib(-222))));
    a.push(msg1(&format!("{n} #HFF"), set(255)));
    a.push(msg1(&format!("{n} #H100"), U::Fail(RefErr::lib(-222))));
    a.push(msg1(&format!("{n}"), U::Fail(RefErr::lib(-109))));
    a.push(msg1(&format!("{n} 0.0"), set(0)));
    a.push(msg1(&format!("{n} 254.6"), set(255)));
    a.push(msg1(&format!("{n} 255.4"), set(255)));
    a.push(msg1(&format!("{n} 255.6"), U::Fail(RefErr::lib(-222))));
    a.push(msg1(&format!("{n} \"1\""), U::Fail(RefErr::std(-104).any_of_class())));
    a.push(msg1(&format!("{n}?"), q()));
    a.push(msg1("*STB?", U::Stb));
    a.push(msg1("*CLS", U::Cls));
    a
}

pub fn slices(tier: Tier) -> Vec<Slice> {
    vec![
        Slice {
            name: "C16/S1-esr-ese-sre-mav-queue".into(),
            q: QKind::Vec,
            alphabet: s1(tier),
            max_queue: tier.pick(1, 2),
        },
        Slice {
            name: "C16/S2-summary-bits".into(),
            q: QKind::Vec,
            alphabet: s2(tier),
            max_queue: 0,
        },
        Slice {
            name: "C16/S4-all-status-byte-sources".into(),
            q: QKind::Vec,
            alphabet: s4(),
            max_queue: 1,
        },
        Slice {
            name: "C16/S3-all-ESE-values".into(),
            q: QKind::Vec,
            alphabet: s3(true),
            max_queue: 1,
        },
        Slice {
            name: "C16/S3-all-SRE-values".into(),
            q: QKind::Vec,
            alphabet: s3(false),
            max_queue: 1,
        },
    ]
}

pub fn run(ctx: &'static Ctx) -> i32 {
    run_slices(
        ctx,
        slices(ctx.tier),
        "three BFS-to-fixpoint slices over the documented device: S1 (*ESE/*SRE over single bits and 255, *ESR?, *STB? with MAV false/true, *CLS, *OPC, *OPC?, *TST? with self-test ok/failing, *RST, *WAI, one failing message per ESR class, SYST:ERR?, multi-unit combinations; queue length bounded), S2 (OPER and QUES one-bit register sets x SRE in {0,8,128,136} x *STB?), S3 (every value 0..255 and out-of-range/rounded values written to *ESE/*SRE and read back), S4 (error queue, QUES summary, OPER summary, ESB and MAV in every combination against seven *SRE masks); every transition runs the real Node::run and compares response, return value and all device registers/queue with the 488.2 section 11 reference model; counted non-trivial = state-changing transitions",
        vec![
            "summary bit of OPER/QUES = event & enable (IEEE 488.2 11.4.3 / SCPI-99 9), see DESIGN.md section 3.4".into(),
            "*CLS clears ESR, both event registers and the error queue (SCPI-99 4.1.3.2), no enable register".into(),
            "MSS (bit 6) = any of the other reported STB bits, MAV included, enabled in SRE (IEEE 488.2 11.2.2.3)".into(),
        ],
        vec![],
    )
}

pub fn replay(case: &Value) -> Result<String, Mismatch> {
    replay_with(slices(tier_of(case)), case)
}
