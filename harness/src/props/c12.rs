//! C12 – the error/event queue is a bounded FIFO whose overflow is marked by -350.
//! Explicit-state exploration (stateright BFS to fixpoint) of the real `ErrorQueue`
//! implementations in lock-step with a boring FIFO model.

use crate::core::*;
use crate::lockstep::*;
use arrayvec::ArrayVec;
use scpi::error::{Error, ErrorCode, ErrorQueue};
use serde_json::{json, Value};
use std::hash::{Hash, Hasher};

pub fn hash_error<H: Hasher>(e: &Error, h: &mut H) {
    e.get_code().hash(h);
    e.get_message().hash(h);
    e.get_extended().hash(h);
}

pub fn show_error(e: &Error) -> String {
    match e.get_extended() {
        Some(x) => format!("{},\"{};{}\"", e.get_code(), esc(e.get_message()), esc(x)),
        None => format!("{},\"{}\"", e.get_code(), esc(e.get_message())),
    }
}

macro_rules! qimpl {
    ($($v:ident = $n:literal),*) => {
        #[derive(Clone, Debug, PartialEq)]
        pub enum QImpl {
            $($v(ArrayVec<Error, $n>),)*
            V(Vec<Error>),
        }
        impl QImpl {
            pub fn new(cap: Option<usize>) -> QImpl {
                match cap {
                    $(Some($n) => QImpl::$v(ArrayVec::new()),)*
                    None => QImpl::V(Vec::new()),
                    Some(n) => engine_failure(&format!("no ArrayVec queue instantiated for capacity {n}")),
                }
            }
            pub fn push(&mut self, e: Error) { match self { $(QImpl::$v(q) => q.push_back_error(e),)* QImpl::V(q) => q.push_back_error(e) } }
            pub fn pop(&mut self) -> Option<Error> { match self { $(QImpl::$v(q) => q.pop_front_error(),)* QImpl::V(q) => q.pop_front_error() } }
            pub fn clear(&mut self) { match self { $(QImpl::$v(q) => q.clear_errors(),)* QImpl::V(q) => q.clear_errors() } }
            pub fn len(&self) -> usize { match self { $(QImpl::$v(q) => q.num_errors(),)* QImpl::V(q) => q.num_errors() } }
            pub fn is_empty(&self) -> bool { match self { $(QImpl::$v(q) => ErrorQueue::is_empty(q),)* QImpl::V(q) => ErrorQueue::is_empty(q) } }
            /// raw slots (for hashing only; the oracle uses drain())
            fn slots(&self) -> &[Error] { match self { $(QImpl::$v(q) => q.as_slice(),)* QImpl::V(q) => q.as_slice() } }
        }
    };
}
qimpl!(A1 = 1, A2 = 2, A3 = 3, A4 = 4, A5 = 5, A6 = 6, A7 = 7, A8 = 8, A9 = 9, A10 = 10, A11 = 11, A12 = 12);

impl Hash for QImpl {
    fn hash<H: Hasher>(&self, h: &mut H) {
        std::mem::discriminant(self).hash(h);
        for e in self.slots() {
            hash_error(e, h);
        }
    }
}

impl QImpl {
    /// Observe the whole content through the public API: clone, pop until empty.
    pub fn drain_copy(&self) -> Vec<Error> {
        let mut c = self.clone();
        let mut v = vec![];
        let cap = c.len() + 4;
        while let Some(e) = c.pop() {
            v.push(e);
            if v.len() > cap {
                break;
            }
        }
        v
    }
}

#[derive(Clone, Debug, PartialEq)]
pub struct RefQ(pub Vec<Error>);
impl Hash for RefQ {
    fn hash<H: Hasher>(&self, h: &mut H) {
        for e in &self.0 {
            hash_error(e, h);
        }
    }
}

pub fn ref_push(q: &mut Vec<Error>, cap: Option<usize>, e: Error) {
    match cap {
        Some(n) if q.len() >= n => {
            // full: the new error is dropped, the newest retained position reads -350
            if let Some(last) = q.last_mut() {
                *last = Error::new(ErrorCode::QueueOverflow);
            }
        }
        _ => q.push(e),
    }
}

#[derive(Clone, Debug)]
pub enum QAct {
    Push(Error),
    Pop,
    Clear,
}

pub struct QueueModel {
    pub cap: Option<usize>,
    /// exploration bound for the growable queue
    pub max_len: usize,
    pub alphabet: Vec<QAct>,
}

pub fn error_alphabet(n: usize) -> Vec<Error> {
    let all = vec![
        Error::custom(1, b"One"),
        Error::custom(2, b"Two").extended(b"ext"),
        Error::new(ErrorCode::UndefinedHeader),
        Error::new(ErrorCode::QueueOverflow),
        Error::new(ErrorCode::OperationComplete),
    ];
    all.into_iter().take(n).collect()
}

impl QueueModel {
    pub fn new(cap: Option<usize>, max_len: usize, nerr: usize) -> Self {
        let mut alphabet: Vec<QAct> = error_alphabet(nerr).into_iter().map(QAct::Push).collect();
        alphabet.push(QAct::Pop);
        alphabet.push(QAct::Clear);
        QueueModel {
            cap,
            max_len,
            alphabet,
        }
    }
    pub fn cfg(&self) -> Value {
        json!({"cap": self.cap, "max_len": self.max_len, "nerr": self.alphabet.len() - 2})
    }
    pub fn from_cfg(v: &Value) -> Option<Self> {
        Some(QueueModel::new(
            v.get("cap")?.as_u64().map(|x| x as usize),
            v.get("max_len")?.as_u64()? as usize,
            v.get("nerr")?.as_u64()? as usize,
        ))
    }
}

impl Lockstep for QueueModel {
    type Sys = QImpl;
    type Ref = RefQ;
    fn name(&self) -> String {
        match self.cap {
            Some(n) => format!("ArrayVec<Error,{n}>"),
            None => format!("Vec<Error>(len<={})", self.max_len),
        }
    }
    fn init(&self) -> (QImpl, RefQ) {
        (QImpl::new(self.cap), RefQ(vec![]))
    }
    fn n_actions(&self) -> usize {
        self.alphabet.len()
    }
    fn render(&self, a: usize) -> String {
        match &self.alphabet[a] {
            QAct::Push(e) => format!("push({})", show_error(e)),
            QAct::Pop => "pop".into(),
            QAct::Clear => "clear".into(),
        }
    }
    fn enabled(&self, _s: &QImpl, r: &RefQ, a: usize) -> bool {
        match (&self.alphabet[a], self.cap) {
            (QAct::Push(_), None) => r.0.len() < self.max_len,
            _ => true,
        }
    }
    fn step(&self, sys: &mut QImpl, r: &mut RefQ, a: usize) -> Result<(), Mismatch> {
        let mm = |key: &str, what: String| Mismatch {
            key: key.into(),
            what,
        };
        match &self.alphabet[a] {
            QAct::Push(e) => {
                sys.push(*e);
                ref_push(&mut r.0, self.cap, *e);
            }
            QAct::Pop => {
                let got = sys.pop();
                let exp = if r.0.is_empty() { None } else { Some(r.0.remove(0)) };
                if got != exp {
                    return Err(mm(
                        "pop-result",
                        format!("pop returned {:?}, FIFO model says {:?}", got.map(|e| show_error(&e)), exp.map(|e| show_error(&e))),
                    ));
                }
            }
            QAct::Clear => {
                sys.clear();
                r.0.clear();
            }
        }
        if sys.len() != r.0.len() {
            return Err(mm("length", format!("num_errors()={} but model holds {}", sys.len(), r.0.len())));
        }
        if sys.is_empty() != r.0.is_empty() {
            return Err(mm("is-empty", format!("is_empty()={} but model length {}", sys.is_empty(), r.0.len())));
        }
        if let Some(n) = self.cap {
            if sys.len() > n {
                return Err(mm("capacity", format!("queue of capacity {n} holds {}", sys.len())));
            }
        }
        let content = sys.drain_copy();
        if content != r.0 {
            return Err(mm(
                "content",
                format!(
                    "content read back in order is {:?}, model says {:?}",
                    content.iter().map(show_error).collect::<Vec<_>>(),
                    r.0.iter().map(show_error).collect::<Vec<_>>()
                ),
            ));
        }
        Ok(())
    }
    fn resync(&self, sys: &QImpl) -> RefQ {
        RefQ(sys.drain_copy())
    }
    fn nontrivial(&self, before: &QImpl, _after: &QImpl, a: usize) -> bool {
        // non-trivial: a push onto a full bounded queue, or a pop/clear of a non-empty queue
        match (&self.alphabet[a], self.cap) {
            (QAct::Push(_), Some(n)) => before.len() >= n,
            (QAct::Push(_), None) => false,
            _ => before.len() > 0,
        }
    }
}

pub fn run(ctx: &'static Ctx) -> i32 {
    let maxcap = ctx.tier.pick(5usize, 12usize);
    let nerr = ctx.tier.pick(4usize, 5usize);
    let veclen = ctx.tier.pick(4usize, 8usize);
    let mut total = ExploreStats::default();
    let mut samples = Samples::new(12);
    let mut per = vec![];
    for cap in 1..=maxcap {
        let nerr_here = if cap > 10 { 2 } else if cap > 8 { 3 } else if cap > 6 { nerr.min(4) } else { nerr };
        let m = QueueModel::new(Some(cap), 0, nerr_here);
        let cfg = m.cfg();
        let st = explore(ctx, m, cfg, &mut samples);
        per.push(json!({"queue": format!("ArrayVec<Error,{cap}>"), "states": st.states, "transitions": st.transitions}));
        total.add(&st);
    }
    let m = QueueModel::new(None, veclen, nerr);
    let cfg = m.cfg();
    let st = explore(ctx, m, cfg, &mut samples);
    per.push(json!({"queue": format!("Vec<Error> len<={veclen}"), "states": st.states, "transitions": st.transitions}));
    total.add(&st);

    // directed deep histories beyond the BFS length bound (growth past 256 entries, then clear / reuse)
    let mut deep_steps = 0u64;
    for (name, cap) in [("Vec<Error> deep", None), ("ArrayVec<Error,8> deep", Some(8usize))] {
        let m = QueueModel::new(cap, usize::MAX, 3);
        let (mut sys, mut rf) = m.init();
        let mut script: Vec<usize> = vec![];
        for i in 0..300 {
            script.push(i % 3);
        }
        for _ in 0..300 {
            script.push(3);
        }
        script.extend([0, 1, 4, 3, 0, 1, 2]);
        for i in 0..600 {
            script.push(if i % 5 == 4 { 3 } else { i % 3 });
        }
        script.extend([4, 3, 0, 3, 3]);
        for (i, &a) in script.iter().enumerate() {
            deep_steps += 1;
            if let Err(mm) = m.step(&mut sys, &mut rf, a) {
                ctx.violation(1_000_000 + i as u64, &format!("deep-{}", mm.key), &format!("[{name}] step {i} of a {}-step history (`{}`): {}", script.len(), m.render(a), mm.what), json!({"kind": "deep", "cap": cap, "upto": i + 1}));
                break;
            }
        }
    }
    let mut c = cov();
    c.insert("deep_trace_steps".into(), json!(deep_steps));
    c.insert("states".into(), json!(total.states));
    c.insert("transitions".into(), json!(total.transitions));
    c.insert("traces_validated_against_impl".into(), json!(total.transitions));
    c.insert("evaluations".into(), json!(total.transitions));
    c.insert("distinct_nontrivial".into(), json!(total.nontrivial));
    c.insert("rule".into(), json!("BFS to fixpoint over the real ErrorQueue impls (ArrayVec<Error,N> for every N in range, Vec<Error> up to a length bound); every transition executes the real push_back_error/pop_front_error/clear_errors and compares pop result, num_errors, is_empty and the full drained content with a FIFO model; non-trivial = push onto a full bounded queue, or pop/clear of a non-empty queue"));
    c.insert("max_depth".into(), json!(total.max_depth));
    c.insert("exhaustive".into(), json!(true));
    c.insert("per_configuration".into(), Value::Array(per));
    c.insert("bounds".into(), json!({"capacities": format!("1..={maxcap}"), "error_alphabet": nerr, "vec_len_bound": veclen}));
    c.insert("samples".into(), Value::Array(samples.items));
    ctx.finish(
        "model_checking",
        c,
        vec![
            "the explored object is the implementation itself (no separate model to bind); the FIFO reference is ~15 lines".into(),
            "error alphabet: custom, custom+extended, standard, an explicit -350 and -800; arbitrary error values are not distinguished by the queue code".into(),
        ],
    )
}

pub fn replay(case: &Value) -> Result<String, Mismatch> {
    if case["kind"] == "deep" {
        let cap = case["cap"].as_u64().map(|x| x as usize);
        let m = QueueModel::new(cap, usize::MAX, 3);
        let mut script: Vec<usize> = vec![];
        for i in 0..300 {
            script.push(i % 3);
        }
        for _ in 0..300 {
            script.push(3);
        }
        script.extend([0, 1, 4, 3, 0, 1, 2]);
        for i in 0..600 {
            script.push(if i % 5 == 4 { 3 } else { i % 3 });
        }
        script.extend([4, 3, 0, 3, 3]);
        let upto = (case["upto"].as_u64().unwrap_or(0) as usize).min(script.len());
        return crate::lockstep::replay(&m, &script[..upto]);
    }
    let m = QueueModel::from_cfg(&case["config"]).unwrap_or_else(|| engine_failure("bad C12 replay config"));
    let actions: Vec<usize> = case["actions"]
        .as_array()
        .unwrap_or_else(|| engine_failure("bad C12 replay"))
        .iter()
        .map(|v| v.as_u64().unwrap() as usize)
        .collect();
    crate::lockstep::replay(&m, &actions)
}
