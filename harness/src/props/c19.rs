//! C19 – channel lists and numeric lists parse to exactly the SCPI-denoted entries.
//! Every string up to a bound over the list alphabet (as numeric-list and as channel-list body),
//! plus grammar derivations and single-point corruptions, against the reference parsers of
//! `refmodel::lists`; observed through the iterators directly and through
//! `Parameters::next_data::<ChannelList | NumericList>` in a real message.

use crate::core::*;
use crate::refmodel::lists::*;
use scpi::error::Result as SResult;
use scpi::parser::expression::channel_list::{self, ChannelList, ChannelSpec};
use scpi::parser::expression::numeric_list::{self, NumericList};
use scpi::parser::tokenizer::Token;
use scpi::tree::prelude::*;
use serde_json::{json, Value};

pub const ALPHA: &[u8] = b"12-+!:,.E'a ";

#[derive(Clone, Debug, PartialEq)]
pub enum Term {
    End,
    Err(i16),
    Runaway,
    /// the iterator yielded an Ok item that is not a decimal value / range of decimal values
    BadItem,
}

fn rng(base: &[u8], x: &[u8]) -> R {
    let b = base.as_ptr() as usize;
    let p = x.as_ptr() as usize;
    if p >= b && p + x.len() <= b + base.len() {
        (p - b, p - b + x.len())
    } else {
        (usize::MAX, x.len())
    }
}

pub fn observe_numeric(nl: NumericList, body: &[u8]) -> (Vec<NEntry>, Term) {
    let mut out = vec![];
    let cap = body.len() + 3;
    for item in nl {
        if out.len() > cap {
            return (out, Term::Runaway);
        }
        match item {
            Ok(numeric_list::Token::Numeric(Token::DecimalNumericProgramData(a))) => out.push(NEntry::Value(rng(body, a))),
            Ok(numeric_list::Token::NumericRange(Token::DecimalNumericProgramData(a), Token::DecimalNumericProgramData(b))) => out.push(NEntry::Range(rng(body, a), rng(body, b))),
            Ok(_) => return (out, Term::BadItem),
            Err(e) => return (out, Term::Err(e.get_code())),
        }
    }
    (out, Term::End)
}

fn dims_of(s: ChannelSpec, cap: usize) -> Result<Vec<i128>, i16> {
    let mut v = vec![];
    for d in s {
        if v.len() > cap {
            return Err(0);
        }
        match d {
            Ok(x) => v.push(x as i128),
            Err(e) => return Err(e.get_code()),
        }
    }
    if v.len() != s.dimension() {
        return Err(1);
    }
    Ok(v)
}

/// Observation of a channel list: entries and, for each spec, the outcome of all six conversions.
pub fn observe_channel(cl: ChannelList, body_len: usize, convs: &mut Vec<(Vec<i128>, [Option<Vec<i128>>; 6])>) -> (Vec<CEntry>, Term) {
    let mut out = vec![];
    let cap = body_len + 3;
    for item in cl {
        if out.len() > cap {
            return (out, Term::Runaway);
        }
        match item {
            Ok(channel_list::Token::ChannelSpec(s)) => match dims_of(s, cap) {
                Ok(d) => {
                    convs.push((d.clone(), conversions(s)));
                    out.push(CEntry::Spec(d));
                }
                Err(e) => return (out, Term::Err(e)),
            },
            Ok(channel_list::Token::ChannelRange(a, b)) => match (dims_of(a, cap), dims_of(b, cap)) {
                (Ok(x), Ok(y)) => {
                    convs.push((x.clone(), conversions(a)));
                    convs.push((y.clone(), conversions(b)));
                    out.push(CEntry::Range(x, y));
                }
                (Err(e), _) | (_, Err(e)) => return (out, Term::Err(e)),
            },
            Ok(channel_list::Token::PathName(p)) => out.push(CEntry::Path(p.to_vec())),
            Ok(channel_list::Token::ModuleChannel(..)) => return (out, Term::Err(0)),
            Err(e) => return (out, Term::Err(e.get_code())),
        }
    }
    (out, Term::End)
}

fn conversions(s: ChannelSpec) -> [Option<Vec<i128>>; 6] {
    [
        isize::try_from(s).ok().map(|v| vec![v as i128]),
        usize::try_from(s).ok().map(|v| vec![v as i128]),
        <(isize, isize)>::try_from(s).ok().map(|v| vec![v.0 as i128, v.1 as i128]),
        <(usize, usize)>::try_from(s).ok().map(|v| vec![v.0 as i128, v.1 as i128]),
        <(isize, isize, isize)>::try_from(s).ok().map(|v| vec![v.0 as i128, v.1 as i128, v.2 as i128]),
        <(usize, usize, usize)>::try_from(s).ok().map(|v| vec![v.0 as i128, v.1 as i128, v.2 as i128]),
    ]
}

fn expected_conversions(d: &[i128]) -> [Option<Vec<i128>>; 6] {
    let nonneg = d.iter().all(|x| *x >= 0);
    let fits = d.iter().all(|x| *x >= isize::MIN as i128 && *x <= isize::MAX as i128);
    let pick = |n: usize, unsigned: bool| -> Option<Vec<i128>> {
        if d.len() == n && fits && (!unsigned || nonneg) {
            Some(d.to_vec())
        } else {
            None
        }
    };
    [pick(1, false), pick(1, true), pick(2, false), pick(2, true), pick(3, false), pick(3, true)]
}

/// Compare an observation with the reference. `what` names the list kind.
fn compare<E: PartialEq + std::fmt::Debug>(kind: &str, body: &[u8], exp: &[E], tail: &Tail, got: &[E], term: &Term) -> Option<(String, String)> {
    let b = esc(body);
    if *term == Term::Runaway {
        return Some((format!("{kind}-runaway"), format!("{kind} list `{b}` does not stop iterating")));
    }
    let prefix_ok = got.len() >= exp.len() && got[..exp.len()] == exp[..];
    match tail {
        Tail::End => {
            if got != exp || *term != Term::End {
                let key = if prefix_ok && got.len() == exp.len() { "wellformed-rejected" } else { "wrong-entries" };
                return Some((format!("{kind}-{key}"), format!("{kind} list `{b}` yields {:?} then {:?}; SCPI denotes {:?} then end", got, term, exp)));
            }
        }
        Tail::Fault(why) => {
            if got != exp || !matches!(term, Term::Err(_)) {
                let key = if matches!(term, Term::End | Term::BadItem) || got.len() > exp.len() { "fault-not-reported" } else { "wrong-entries-before-fault" };
                return Some((format!("{kind}-{key}"), format!("{kind} list `{b}` ({why}) yields {:?} then {:?}; expected {:?} then an error", got, term, exp)));
            }
        }
        Tail::FaultAfterOptionalLast(why) => {
            // exp's last entry is adjacent to the fault: it may or may not have been yielded
            let n = exp.len();
            let ok = matches!(term, Term::Err(_)) && (got == exp || (n > 0 && got == &exp[..n - 1]));
            if !ok {
                let key = if matches!(term, Term::End | Term::BadItem) || got.len() > n { "fault-not-reported" } else { "wrong-entries-before-fault" };
                return Some((format!("{kind}-{key}"), format!("{kind} list `{b}` ({why}) yields {:?} then {:?}; expected {:?} (the last one optional) then an error", got, term, exp)));
            }
        }
        Tail::Unspec(_) => {
            if !prefix_ok {
                return Some((format!("{kind}-wrong-entries"), format!("{kind} list `{b}` yields {:?} then {:?}; the first entries must be {:?}", got, term, exp)));
            }
        }
        Tail::UnspecAfterOptionalLast(_) => {
            let n = exp.len().saturating_sub(1);
            let m = got.len().min(exp.len());
            if got.len() < n || got[..m] != exp[..m] {
                return Some((format!("{kind}-wrong-entries"), format!("{kind} list `{b}` yields {:?} then {:?}; the first entries must be {:?} (the last one optional)", got, term, exp)));
            }
        }
    }
    None
}

#[derive(Default)]
pub struct Acc {
    pub evals: u64,
    pub wellformed: u64,
    pub faults: u64,
    pub unspec: u64,
    pub conv_checked: u64,
}

pub fn check_numeric(body: &[u8], acc: &mut Acc) -> Option<(String, String)> {
    acc.evals += 1;
    let (exp, tail) = numeric_list(body);
    match &tail {
        Tail::End => {
            if exp.len() >= 2 || exp.iter().any(|e| matches!(e, NEntry::Range(..))) {
                acc.wellformed += 1
            }
        }
        Tail::Unspec(_) | Tail::UnspecAfterOptionalLast(_) => acc.unspec += 1,
        _ => acc.faults += 1,
    }
    let r = guarded(|| observe_numeric(NumericList::new(body), body));
    match r {
        Err(p) => Some(("numeric-panic".into(), format!("numeric list `{}` panicked: {p}", esc(body)))),
        Ok((got, term)) => compare("numeric", body, &exp, &tail, &got, &term),
    }
}

pub fn check_channel(body: &[u8], acc: &mut Acc) -> Option<(String, String)> {
    acc.evals += 1;
    let (exp, tail) = channel_list(body);
    match &tail {
        Tail::End => {
            if exp.len() >= 2 || exp.iter().any(|e| !matches!(e, CEntry::Spec(d) if d.len() == 1)) {
                acc.wellformed += 1
            }
        }
        Tail::Unspec(_) | Tail::UnspecAfterOptionalLast(_) => acc.unspec += 1,
        _ => acc.faults += 1,
    }
    let mut full = Vec::with_capacity(body.len() + 1);
    full.push(b'@');
    full.extend_from_slice(body);
    let mut convs = vec![];
    let r = guarded(|| match ChannelList::new(&full) {
        Some(cl) => Some(observe_channel(cl, body.len(), &mut convs)),
        None => None,
    });
    match r {
        Err(p) => Some(("channel-panic".into(), format!("channel list `@{}` panicked: {p}", esc(body)))),
        Ok(None) => Some(("channel-not-recognised".into(), format!("`@{}` is not recognised as a channel list", esc(body)))),
        Ok(Some((got, term))) => {
            if let Some(v) = compare("channel", body, &exp, &tail, &got, &term) {
                return Some(v);
            }
            for (d, c) in &convs {
                acc.conv_checked += 1;
                let want = expected_conversions(d);
                if *c != want {
                    return Some((
                        "channel-tuple-conversion".into(),
                        format!("channel list `@{}`: spec {:?} converts to isize/usize/(i,i)/(u,u)/(i,i,i)/(u,u,u) = {:?}, expected {:?}", esc(body), d, c, want),
                    ));
                }
            }
            None
        }
    }
}

// ---- through a real message

pub struct ListDev {
    pub numeric: Option<(Vec<NEntry>, Term)>,
    pub channel: Option<(Vec<CEntry>, Term)>,
    pub base: usize,
    pub len: usize,
}
impl Device for ListDev {
    fn handle_error(&mut self, _e: Error) {}
}
pub struct NumCmd;
impl Command<ListDev> for NumCmd {
    fn event(&self, d: &mut ListDev, _c: &mut Context, mut p: Parameters) -> SResult<()> {
        let nl: NumericList = p.next_data()?;
        // offsets relative to the expression body inside the message
        let body = unsafe { std::slice::from_raw_parts(d.base as *const u8, d.len) };
        d.numeric = Some(observe_numeric(nl, body));
        Ok(())
    }
}
pub struct ChanCmd;
impl Command<ListDev> for ChanCmd {
    fn event(&self, d: &mut ListDev, _c: &mut Context, mut p: Parameters) -> SResult<()> {
        let cl: ChannelList = p.next_data()?;
        let mut convs = vec![];
        d.channel = Some(observe_channel(cl, d.len, &mut convs));
        Ok(())
    }
}
pub const LIST_TREE: Node<ListDev> = Node::Branch {
    name: b"",
    default: false,
    sub: &[Node::Leaf { name: b"NUM", default: false, handler: &NumCmd }, Node::Leaf { name: b"CHAN", default: false, handler: &ChanCmd }],
};

/// Same body through a message (only bodies the expression lexer can carry).
pub fn check_via_message(body: &[u8]) -> Option<(String, String)> {
    if body.iter().any(|c| matches!(c, b'"' | b'\'' | b';' | b'(' | b')') || !c.is_ascii()) {
        return None;
    }
    // numeric
    let mut msg = b"NUM (".to_vec();
    let off = msg.len();
    msg.extend_from_slice(body);
    msg.push(b')');
    let mut dev = ListDev { numeric: None, channel: None, base: msg.as_ptr() as usize + off, len: body.len() };
    let mut ctx = Context::default();
    let mut out: Vec<u8> = vec![];
    let r = guarded(|| LIST_TREE.run(&msg, &mut dev, &mut ctx, &mut out));
    if let Err(p) = r {
        return Some(("numeric-panic".into(), format!("`{}` panicked: {p}", esc(&msg))));
    }
    let direct = observe_numeric(NumericList::new(body), body);
    if dev.numeric.as_ref() != Some(&direct) {
        return Some(("message-path-differs".into(), format!("`{}`: handler observed {:?}, direct iteration gives {:?}", esc(&msg), dev.numeric, direct)));
    }
    // channel
    let mut msg = b"CHAN (@".to_vec();
    msg.extend_from_slice(body);
    msg.push(b')');
    let mut dev = ListDev { numeric: None, channel: None, base: 0, len: body.len() };
    let r = guarded(|| LIST_TREE.run(&msg, &mut dev, &mut ctx, &mut out));
    if let Err(p) = r {
        return Some(("channel-panic".into(), format!("`{}` panicked: {p}", esc(&msg))));
    }
    let mut full = b"@".to_vec();
    full.extend_from_slice(body);
    let mut convs = vec![];
    let direct = ChannelList::new(&full).map(|cl| observe_channel(cl, body.len(), &mut convs));
    if dev.channel != direct {
        return Some(("message-path-differs".into(), format!("`{}`: handler observed {:?}, direct iteration gives {:?}", esc(&msg), dev.channel, direct)));
    }
    None
}

// ---- grammar derivations and corruptions

pub fn numeric_derivations() -> Vec<Vec<u8>> {
    let nums = ["1", "-2", "+3.5", ".5", "6.", "7e2", "-8.25E-3", "0", "12345678901234567890"];
    let mut entries: Vec<String> = vec![];
    for a in nums {
        entries.push(a.to_string());
    }
    for (i, a) in nums.iter().enumerate() {
        entries.push(format!("{a}:{}", nums[(i + 3) % nums.len()]));
    }
    let mut out = vec![];
    let n = entries.len();
    for i in 0..n {
        out.push(entries[i].clone().into_bytes());
        for j in 0..n {
            out.push(format!("{},{}", entries[i], entries[j]).into_bytes());
        }
        out.push(format!("{},{},{},{}", entries[i], entries[(i + 1) % n], entries[(i + 5) % n], entries[(i + 11) % n]).into_bytes());
    }
    out
}

pub fn channel_derivations() -> Vec<Vec<u8>> {
    let specs = ["1", "12", "-3", "+4", "1!2", "10!20", "-1!-2", "1!2!3", "7!8!9", "123456!7", "-9223372036854775808", "9223372036854775807!-9223372036854775808"];
    let paths = ["'a'", "\"b\"", "'a,b:c!d'", "'it''s'", "\"q\"\"q\"", "''"];
    let mut entries: Vec<String> = specs.iter().map(|s| s.to_string()).collect();
    for s in specs {
        for t in specs {
            if s.matches('!').count() == t.matches('!').count() {
                entries.push(format!("{s}:{t}"));
            }
        }
    }
    entries.extend(paths.iter().map(|s| s.to_string()));
    let n = entries.len();
    let mut out = vec![];
    for i in 0..n {
        out.push(entries[i].clone().into_bytes());
        for k in [1, 4, 9, 17] {
            out.push(format!("{},{}", entries[i], entries[(i + k) % n]).into_bytes());
        }
        out.push(format!("{},{},{},{}", entries[i], entries[(i * 3 + 1) % n], entries[(i * 5 + 2) % n], entries[(i * 7 + 3) % n]).into_bytes());
    }
    out
}

pub fn corruptions(m: &[u8]) -> Vec<Vec<u8>> {
    let mut out = vec![];
    for i in 0..=m.len() {
        for c in [b',', b':', b'!', b'a', b' ', b'1', b'-'] {
            let mut x = m[..i].to_vec();
            x.push(c);
            x.extend_from_slice(&m[i..]);
            out.push(x);
        }
        if i < m.len() {
            let mut x = m[..i].to_vec();
            x.extend_from_slice(&m[i + 1..]);
            out.push(x);
        }
    }
    out
}

pub fn run(ctx: &'static Ctx) -> i32 {
    if let Err(e) = self_check() {
        engine_failure(&e);
    }
    let k = ctx.tier.pick(6u32, 8u32);
    let total = count_upto(ALPHA.len() as u64, k);
    let accs = par_sweep(
        ctx,
        total,
        SweepOpts {
            name: "C19 all short bodies",
            chunk: 1 << 13,
            hang_secs: 30,
        },
        Acc::default,
        |i, acc: &mut Acc| {
            let mut buf = [0u8; 8];
            let l = nth_string(ALPHA, i, &mut buf);
            let body = &buf[..l];
            if let Some((key, w)) = check_numeric(body, acc) {
                ctx.violation(i, &key, &w, json!({"kind": "numeric", "body": esc(body)}));
            }
            if let Some((key, w)) = check_channel(body, acc) {
                ctx.violation(i, &key, &w, json!({"kind": "channel", "body": esc(body)}));
            }
            if l <= 5 {
                if let Some((key, w)) = check_via_message(body) {
                    ctx.violation(i, &key, &w, json!({"kind": "message", "body": esc(body)}));
                }
            }
        },
        |i| {
            let mut buf = [0u8; 8];
            let l = nth_string(ALPHA, i, &mut buf);
            json!({"kind": "numeric", "body": esc(&buf[..l])})
        },
    );
    let mut acc = Acc::default();
    for a in accs {
        acc.evals += a.evals;
        acc.wellformed += a.wellformed;
        acc.faults += a.faults;
        acc.unspec += a.unspec;
        acc.conv_checked += a.conv_checked;
    }
    // derivations + corruptions
    let mut order = total;
    let nd = numeric_derivations();
    let cd = channel_derivations();
    let mut nder = 0u64;
    let mut ncorr = 0u64;
    for d in &nd {
        nder += 1;
        order += 1;
        if !matches!(numeric_list(d).1, Tail::End) {
            engine_failure(&format!("numeric derivation `{}` not accepted by the reference", esc(d)));
        }
        if let Some((key, w)) = check_numeric(d, &mut acc) {
            ctx.violation(order, &format!("derivation-{key}"), &w, json!({"kind": "numeric", "body": esc(d)}));
        }
        if let Some((key, w)) = check_via_message(d) {
            ctx.violation(order, &key, &w, json!({"kind": "message", "body": esc(d)}));
        }
        for c in corruptions(d) {
            ncorr += 1;
            order += 1;
            if let Some((key, w)) = check_numeric(&c, &mut acc) {
                ctx.violation(order, &format!("corruption-{key}"), &w, json!({"kind": "numeric", "body": esc(&c)}));
            }
        }
    }
    for d in &cd {
        nder += 1;
        order += 1;
        if !matches!(channel_list(d).1, Tail::End) {
            engine_failure(&format!("channel derivation `{}` not accepted by the reference", esc(d)));
        }
        if let Some((key, w)) = check_channel(d, &mut acc) {
            ctx.violation(order, &format!("derivation-{key}"), &w, json!({"kind": "channel", "body": esc(d)}));
        }
        if let Some((key, w)) = check_via_message(d) {
            ctx.violation(order, &key, &w, json!({"kind": "message", "body": esc(d)}));
        }
        for c in corruptions(d) {
            ncorr += 1;
            order += 1;
            if let Some((key, w)) = check_channel(&c, &mut acc) {
                ctx.violation(order, &format!("corruption-{key}"), &w, json!({"kind": "channel", "body": esc(&c)}));
            }
        }
    }
    let mut c = cov();
    c.insert("evaluations".into(), json!(acc.evals));
    c.insert("distinct_nontrivial".into(), json!(acc.wellformed + acc.faults));
    c.insert("rule".into(), json!(format!("(a) every string of length <= {k} over `12-+!:,.E'a SP` ({total} strings) as numeric-list body and as channel-list body (`@` + body); bodies of length <= 5 also through Parameters::next_data::<NumericList|ChannelList> in a real message; (b) {nder} grammar derivations (numeric: NRf with signs, fractions, exponents, bare leading/trailing point, 20-digit values, ranges, 1..4 entries; channel: 1-3 dimensions, multi-digit and signed numbers, equal-dimension ranges, path names containing `,:!` and doubled quotes) and (c) {ncorr} single-point corruptions (insert `,` `:` `!` letter blank digit `-` at every position, delete every byte). Reference: refmodel/lists.rs gives the entries before the first fault and whether the list ends, faults (leading/doubled comma, missing separator, third range end, range ends of different dimension, foreign character: an error must be reported exactly there) or leaves the pinned grammar (entries so far must still match). Channel specs: dimension(), per-dimension iteration and all six isize/usize tuple conversions must equal the numbers of the text in order. Distinct non-trivial = multi-entry/range/multi-dimensional well-formed lists + listed faults")));
    c.insert("exhaustive".into(), json!(true));
    c.insert("wellformed_nontrivial".into(), json!(acc.wellformed));
    c.insert("listed_faults".into(), json!(acc.faults));
    c.insert("unspecified".into(), json!(acc.unspec));
    c.insert("spec_conversions_checked".into(), json!(acc.conv_checked));
    c.insert("samples".into(), json!(["(1-2)", "(.5,-.5e-1)", "(@1!2:3!4,'a,b')", "(@1!!2)", "(@1!2:3)", "(1:2:3)", "(@-1!+2)"]));
    ctx.finish(
        "exploration",
        c,
        vec![
            "white space inside a list, a trailing comma, an empty list, non-integer or sign-glued channel numbers and `E` without exponent digits are outside what the property pins (no verdict from that point on)".into(),
            "numbers of a numeric list are compared as byte ranges of the input (exact text), channel numbers as integers".into(),
        ],
    )
}

pub fn replay(case: &Value) -> Result<String, String> {
    let body = unesc(case["body"].as_str().unwrap_or(""));
    let mut acc = Acc::default();
    let r = match case["kind"].as_str() {
        Some("numeric") => check_numeric(&body, &mut acc),
        Some("channel") => check_channel(&body, &mut acc),
        Some("message") => check_via_message(&body),
        _ => engine_failure("bad C19 replay"),
    };
    match r {
        Some((k, w)) => Err(format!("{k}: {w}")),
        None => Ok("conforms".into()),
    }
}
