//! C13 – every failed message is queued once, flagged in ESR, and read back in order.
//! stateright BFS over the documented device + full mandated tree, in lock-step with the
//! reference model of `scpimodel`.

use crate::core::*;
use crate::lockstep::Mismatch;
use crate::scpimodel::*;
use serde_json::{json, Value};

/// One failing unit per error kind / raising mechanism (text sent to the real parser, error the
/// standards assign).
pub fn fail_units(n: usize) -> Vec<Unit> {
    let all = vec![
        unit("FOO", U::Fail(RefErr::lib(-113))),                 // undefined header
        unit("EVT 1,2", U::Fail(RefErr::lib(-108))),             // parameter not allowed
        unit("U8", U::Fail(RefErr::lib(-109))),                  // missing parameter
        unit("U8 \"x\"", U::Fail(RefErr::std(-104).any_of_class())),            // data type error
        unit("U8 256", U::Fail(RefErr::lib(-222))),              // data out of range
        unit("RAISE -400", U::Fail(RefErr::std(-400))),          // handler-raised query error
        unit("EVT \"abc", U::Fail(RefErr::std(-151).any_of_class())),           // lexical: unterminated string
        unit("RAISEX", U::Fail(RefErr::std(-300).with_ext(b"ext"))), // device-specific with extended text
        unit("RAISE 5", U::Fail(RefErr::std(5))),                // custom positive
        unit("RAISE -800", U::Fail(RefErr::std(-800))),          // handler-raised operation complete
        unit("RAISE -500", U::Fail(RefErr::std(-500))),
        unit("RAISE -600", U::Fail(RefErr::std(-600))),
        unit("RAISE -700", U::Fail(RefErr::std(-700))),
        unit("RAISE -950", U::Fail(RefErr::std(-950))),          // custom unclassified negative
        unit("RAISE -100", U::Fail(RefErr::std(-100))),
        unit("RAISE -200", U::Fail(RefErr::std(-200))),
        unit("U8 1V", U::Fail(RefErr::std(-138).any_of_class())),               // suffix not allowed
    ];
    all.into_iter().take(n).collect()
}

pub fn alphabet(nfail: usize, rich: bool) -> Vec<Act> {
    let mut a = vec![];
    a.push(msg1("EVT", U::Nop));
    a.push(msg1("VAL?", U::Query(b"42")));
    let fails = fail_units(nfail);
    for f in &fails {
        a.push(msg(vec![f.clone()]));
    }
    a.push(msg1("*OPC", U::Opc));
    a.push(msg1("*OPC?", U::OpcQ));
    a.push(msg(vec![unit("*TST?", U::Tst), unit("*OPC?", U::OpcQ), unit("SYST:ERR:COUN?", U::ErrCount)]));
    a.push(msg1("SYST:ERR?", U::ErrNext));
    a.push(msg1("system:error:next?", U::ErrNext));
    a.push(msg1("SYST:ERR:COUN?", U::ErrCount));
    a.push(msg1("SYST:ERR:ALL?", U::ErrAll));
    a.push(msg1("*ESR?", U::Esr));
    // the queries inside the same message as a failure / each other
    let f0 = fails[0].clone();
    let f4 = fails[fails.len().min(5) - 1].clone();
    a.push(msg(vec![f0.clone(), unit("SYST:ERR?", U::ErrNext)]));
    a.push(msg(vec![unit("SYST:ERR?", U::ErrNext), f0.clone()]));
    a.push(msg(vec![unit("*ESR?", U::Esr), f4.clone()]));
    a.push(msg(vec![unit("SYST:ERR:COUN?", U::ErrCount), unit("ALL?", U::ErrAll), unit("COUN?", U::ErrCount)]));
    a.push(msg(vec![unit("VAL?", U::Query(b"42")), unit("SYST:ERR?", U::ErrNext), unit("*ESR?", U::Esr)]));
    a.push(msg(vec![unit("EVT", U::Nop), f4.clone(), unit("EVT", U::Nop)]));
    if rich {
        a.push(msg(vec![unit("SYST:ERR?", U::ErrNext), unit(":SYST:ERR?", U::ErrNext)]));
        a.push(msg(vec![unit("*OPC", U::Opc), unit("*ESR?", U::Esr), unit("SYST:ERR:ALL?", U::ErrAll)]));
        a.push(msg(vec![unit("SYST:ERR:ALL?", U::ErrAll), unit("NEXT?", U::ErrNext), unit("*ESR?", U::Esr), unit("*ESR?", U::Esr)]));
        a.push(msg(vec![f0.clone(), f4.clone()]));
        a.push(msg(vec![unit("RAISE? -200", U::Fail(RefErr::std(-200)))]));
        a.push(msg(vec![unit("SYST:ERR:COUN?", U::ErrCount), unit(":RAISE -200", U::Fail(RefErr::std(-200))), unit("*ESR?", U::Esr)]));
    }
    a
}

pub fn slices(tier: Tier) -> Vec<Slice> {
    let nfail = tier.pick(10, 17);
    let l = tier.pick(3, 4);
    let mut v = vec![
        Slice {
            name: "C13/vec-queue".into(),
            q: QKind::Vec,
            alphabet: alphabet(nfail, tier == Tier::Thorough),
            max_queue: l,
        },
        Slice {
            name: "C13/arrayvec2-queue".into(),
            q: QKind::A2,
            alphabet: alphabet(tier.pick(5, 9), tier == Tier::Thorough),
            max_queue: 0,
        },
    ];
    // a fixed queue of three: the smallest in which read order beyond the first item is observable
    v.push(Slice {
        name: "C13/arrayvec3-queue".into(),
        q: QKind::A3,
        alphabet: alphabet(tier.pick(4, 7), false),
        max_queue: 0,
    });
    v
}

/// Long histories: hundreds of unread items, counters crossing 256, interleaved reads.
pub fn deep_alphabet() -> Vec<Act> {
    vec![
        msg1("FOO", U::Fail(RefErr::lib(-113))),                                // 0
        msg1("U8 256", U::Fail(RefErr::lib(-222))),                             // 1
        msg1("RAISEX", U::Fail(RefErr::std(-300).with_ext(b"ext"))),            // 2
        msg1("SYST:ERR:COUN?", U::ErrCount),                                    // 3
        msg1("SYST:ERR?", U::ErrNext),                                          // 4
        msg1("SYST:ERR:ALL?", U::ErrAll),                                       // 5
        msg1("*ESR?", U::Esr),                                                  // 6
        msg1("*OPC", U::Opc),                                                   // 7
        msg(vec![unit("SYST:ERR:COUN?", U::ErrCount), unit("NEXT?", U::ErrNext), unit("COUN?", U::ErrCount)]), // 8
        msg1("RAISE -294", U::Fail(RefErr::std(-294))),                         // 9
        msg1("RAISE -299", U::Fail(RefErr::std(-299))),                         // 10
        msg1("RAISE -199", U::Fail(RefErr::std(-199))),                         // 11
        msg1("RAISE -1", U::Fail(RefErr::std(-1))),                             // 12
    ]
}

pub fn deep_scripts() -> Vec<(&'static str, Vec<usize>)> {
    let mut a = vec![];
    for i in 0..300 {
        a.push(i % 3);
        if matches!(i, 9 | 10 | 99 | 100 | 254 | 255 | 256 | 257 | 299) {
            a.push(3);
        }
    }
    a.extend([8, 4, 4, 3, 6, 5, 3, 4, 6]);
    let mut b = vec![];
    for round in 0..40 {
        for _ in 0..(round % 7 + 1) {
            b.push(round % 3);
        }
        b.push(7);
        b.push(3);
        for _ in 0..(round % 3) {
            b.push(4);
        }
        if round % 10 == 9 {
            b.push(5);
            b.push(6);
        }
    }
    let c = vec![9, 6, 10, 6, 11, 6, 12, 6, 9, 10, 11, 12, 3, 5, 6];
    vec![("C13/deep-300-unread", a), ("C13/deep-interleaved", b), ("C13/deep-class-boundaries", c)]
}

pub fn run(ctx: &'static Ctx) -> i32 {
    let mut deep_steps = 0u64;
    for (name, script) in deep_scripts() {
        deep_steps += deep_trace::<Vec<scpi::error::Error>>(ctx, name, deep_alphabet(), &script);
    }
    let nfail = ctx.tier.pick(10, 17);
    run_slices(
        ctx,
        slices(ctx.tier),
        "BFS to fixpoint over the documented device (state = error queue, ESR, ESE, SRE, OPER/QUES registers); actions are whole program messages run through the real Node::run on the full mandated tree: valid event/query, one failing message per error kind (undefined header, arity, type, range, lexical, handler-raised errors of each class, custom, extended), *OPC, SYST:ERR[:NEXT]?/COUN?/ALL?, *ESR?, and multi-unit messages mixing them; every transition compares return value, response bytes, queue content (read through the public API), ESR with the reference model; counted non-trivial = transitions that change the device state",
        vec![
            "device wired as in scpi-contrib/examples/minimal_scpi.rs; queue = the library's Vec<Error> and ArrayVec<Error,2|3> implementations".into(),
            "queue length bound for the growable queue (pushing messages disabled at the bound); the ArrayVec devices are explored without bound".into(),
            "the error a malformed message must raise is fixed by the alphabet table (e.g. `U8 256` -> -222), per SCPI-99 21.8".into(),
        ],
        vec![
            ("bounds", json!({"error_kinds": nfail, "queue_bound_vec": ctx.tier.pick(3, 4)})),
            ("deep_trace_steps", json!(deep_steps)),
            ("deep_traces", json!("three deterministic long histories replayed in lock-step outside the BFS bound: 300 failures with COUNt? at 10/100/255/256/257/300 unread items followed by reads; 40 rounds of interleaved failures, *OPC, COUNt?, NEXT?, ALL?, *ESR?; handler-raised errors at class boundaries (-294, -299, -199, -1)")),
        ],
    )
}

pub fn replay(case: &Value) -> Result<String, Mismatch> {
    if case["kind"] == "deep-trace" {
        let name = case["name"].as_str().unwrap_or("");
        let upto = case["upto"].as_u64().unwrap_or(0) as usize;
        for (n, script) in deep_scripts() {
            if n == name {
                let m = DevModel::<Vec<scpi::error::Error>>::new(n, deep_alphabet(), usize::MAX);
                return crate::lockstep::replay(&m, &script[..upto.min(script.len())]);
            }
        }
        engine_failure("unknown deep trace");
    }
    replay_with(slices(tier_of(case)), case)
}
