//! C02 – compound-command header paths resolve to exactly the SCPI-designated handler.
//!
//! For every tree of a bounded family the *reference resolver's* state graph (state = current
//! header level) is explored breadth-first; every (state, unit) transition is validated against
//! the real `Node::run` by executing `witness(state) ; unit` and comparing the handler-invocation
//! log and the return value. In addition all messages of 2 (and 3) units are run without any
//! witness assumption, and messages are re-run after other messages (history independence).

use crate::core::*;
use crate::refmodel::mnemonic::{ref_match, split_def};
use crate::refmodel::resolver::*;
use crate::rig::*;
use scpi::tree::Node;
use serde_json::{json, Value};
use std::collections::{BTreeMap, VecDeque};

const POOL: &[&str] = &["ALPHa", "BETa", "ALPHa2", "BETa1", "GAMMa3"];

#[derive(Clone, Debug)]
enum Proto {
    Leaf { name: &'static str, default: bool },
    Branch { name: &'static str, default: bool, sub: Vec<Proto> },
}

fn conflict(a: &str, b: &str) -> bool {
    if a.starts_with('*') || b.starts_with('*') || a.is_empty() || b.is_empty() {
        return a == b;
    }
    // two sibling names conflict if some spelling matches both
    let forms = |d: &str| -> Vec<Vec<u8>> {
        let (s, l, suf) = split_def(d.as_bytes()).unwrap();
        let mut v = vec![];
        for f in [s, l] {
            let mut x = f.to_vec();
            x.extend_from_slice(suf);
            v.push(x.clone());
            if suf.is_empty() {
                let mut y = f.to_vec();
                y.push(b'1');
                v.push(y);
            }
            if suf == b"1" {
                v.push(f.to_vec());
            }
        }
        v
    };
    forms(a).iter().any(|f| ref_match(b.as_bytes(), f) != Some(false)) || forms(b).iter().any(|f| ref_match(a.as_bytes(), f) != Some(false))
}

/// All child lists for a branch with `budget` nodes available and `depth` levels left.
/// Canonical: non-default children in pool order; default leaf/branch at varying positions.
fn gen_children(depth: u32, budget: usize, max_children: usize) -> Vec<(Vec<Proto>, usize)> {
    let mut out: Vec<(Vec<Proto>, usize)> = vec![(vec![], 0)];
    if budget == 0 || depth == 0 {
        return out;
    }
    // choose a set of names (increasing pool order), for each: leaf or branch, default or not
    fn rec(
        start: usize,
        depth: u32,
        budget: usize,
        max_children: usize,
        cur: &mut Vec<Proto>,
        used: usize,
        has_dleaf: bool,
        has_dbranch: bool,
        out: &mut Vec<(Vec<Proto>, usize)>,
    ) {
        if !cur.is_empty() {
            out.push((cur.clone(), used));
        }
        if cur.len() >= max_children || used >= budget {
            return;
        }
        for i in start..POOL.len() {
            let name = POOL[i];
            if cur.iter().any(|c| {
                let n = match c {
                    Proto::Leaf { name, .. } | Proto::Branch { name, .. } => *name,
                };
                !n.is_empty() && conflict(n, name)
            }) {
                continue;
            }
            // leaf (default or not)
            for default in [false, true] {
                if default && has_dleaf {
                    continue;
                }
                cur.push(Proto::Leaf { name, default });
                rec(i + 1, depth, budget, max_children, cur, used + 1, has_dleaf || default, has_dbranch, out);
                cur.pop();
            }
            // branch with at least one child
            if depth > 1 && used + 2 <= budget {
                for (sub, n) in gen_children(depth - 1, budget - used - 1, max_children) {
                    if sub.is_empty() {
                        continue;
                    }
                    for default in [false, true] {
                        if default && has_dbranch {
                            continue;
                        }
                        cur.push(Proto::Branch { name, default, sub: sub.clone() });
                        rec(i + 1, depth, budget, max_children, cur, used + 1 + n, has_dleaf, has_dbranch || default, out);
                        cur.pop();
                    }
                }
            }
        }
    }
    let mut cur = vec![];
    let mut res = vec![];
    rec(0, depth, budget, max_children, &mut cur, 0, false, false, &mut res);
    // anonymous default leaf variants: prepend `""` default leaf to lists without a default leaf
    let mut with_anon = vec![];
    for (l, n) in &res {
        if n + 1 <= budget && !l.iter().any(|c| matches!(c, Proto::Leaf { default: true, .. })) {
            let mut v = vec![Proto::Leaf { name: "", default: true }];
            v.extend(l.iter().cloned());
            with_anon.push((v, n + 1));
        }
    }
    out.extend(res);
    out.extend(with_anon);
    out
}

/// Documented convention puts the default child first; the repository's own test tree also has it
/// elsewhere, so both placements are generated: `rot` = 0 keeps pool order, 1 moves defaults first.
fn place_defaults(list: &[Proto], first: bool) -> Vec<Proto> {
    let mut v: Vec<Proto> = list
        .iter()
        .map(|p| match p {
            Proto::Branch { name, default, sub } => Proto::Branch {
                name,
                default: *default,
                sub: place_defaults(sub, first),
            },
            l => l.clone(),
        })
        .collect();
    if first {
        v.sort_by_key(|p| match p {
            Proto::Leaf { default: true, .. } => 0,
            Proto::Branch { default: true, .. } => 1,
            _ => 2,
        });
    }
    v
}

fn to_spec(list: &[Proto], next_id: &mut u8) -> Vec<TreeSpec> {
    list.iter()
        .map(|p| match p {
            Proto::Leaf { name, default } => {
                let id = *next_id;
                *next_id += 1;
                TreeSpec::Leaf {
                    name: name.to_string(),
                    default: *default,
                    handler: id,
                }
            }
            Proto::Branch { name, default, sub } => TreeSpec::Branch {
                name: name.to_string(),
                default: *default,
                sub: to_spec(sub, next_id),
            },
        })
        .collect()
}

/// A tree is ambiguous if some branch has a child whose name is also reachable by implicit
/// descent through its default-branch chain (SCPI forbids such trees; omitting the default node
/// could then not have "identical effect").
fn ambiguous(t: &TreeSpec) -> bool {
    if let TreeSpec::Branch { sub, .. } = t {
        let mut chain: Option<&TreeSpec> = sub.iter().find(|c| matches!(c, TreeSpec::Branch { default: true, .. }));
        while let Some(TreeSpec::Branch { sub: dsub, .. }) = chain {
            for c in sub {
                for d in dsub {
                    if !c.name().is_empty() && !d.name().is_empty() && conflict(c.name(), d.name()) {
                        return true;
                    }
                }
            }
            chain = dsub.iter().find(|c| matches!(c, TreeSpec::Branch { default: true, .. }));
        }
        sub.iter().any(ambiguous)
    } else {
        false
    }
}

pub fn tree_family(n: usize, depth: u32) -> Vec<TreeSpec> {
    let mut out = vec![];
    let mut seen = std::collections::HashSet::new();
    for (list, used) in gen_children(depth, n, 3) {
        if used == 0 {
            continue;
        }
        for first in [false, true] {
            let placed = place_defaults(&list, first);
            let mut id = 0u8;
            let mut sub = to_spec(&placed, &mut id);
            // common commands live at the root only
            sub.push(TreeSpec::leaf("*CM", id));
            sub.push(TreeSpec::leaf("*CM2", id + 1));
            let t = TreeSpec::root(sub);
            if ambiguous(&t) {
                continue;
            }
            if seen.insert(t.clone()) {
                out.push(t);
            }
        }
    }
    out
}

fn names_of(t: &TreeSpec, out: &mut Vec<String>) {
    match t {
        TreeSpec::Leaf { name, .. } => {
            if !name.is_empty() && !name.starts_with('*') && !out.contains(name) {
                out.push(name.clone());
            }
        }
        TreeSpec::Branch { name, sub, .. } => {
            if !name.is_empty() && !out.contains(name) {
                out.push(name.clone());
            }
            for s in sub {
                names_of(s, out);
            }
        }
    }
}

/// Spelling `k` of a defined mnemonic: 0 SHORT, 1 longform lower-case, 2 MiXed long, 3 short with
/// explicit suffix 1 / omitted suffix 1.
fn spell(def: &str, k: usize) -> Vec<u8> {
    if def == "ZZZ" {
        return b"ZZZ".to_vec();
    }
    let (s, l, suf) = split_def(def.as_bytes()).unwrap();
    let mut v: Vec<u8> = match k {
        0 => s.to_vec(),
        1 => l.to_ascii_lowercase(),
        2 => l.iter().enumerate().map(|(i, c)| if i % 2 == 0 { c.to_ascii_lowercase() } else { c.to_ascii_uppercase() }).collect(),
        _ => s.to_ascii_lowercase(),
    };
    if k == 3 {
        if suf.is_empty() {
            v.push(b'1');
        } else if suf != b"1" {
            v.extend_from_slice(suf);
        }
    } else {
        v.extend_from_slice(suf);
    }
    v
}

/// The unit alphabet of a tree.
fn unit_alphabet(t: &TreeSpec, max_path: usize, spellings: usize) -> Vec<UnitHdr> {
    let mut names = vec![];
    names_of(t, &mut names);
    names.push("ZZZ".into());
    let mut paths: Vec<Vec<usize>> = vec![];
    let mut frontier: Vec<Vec<usize>> = vec![vec![]];
    for _ in 0..max_path {
        let mut next = vec![];
        for p in &frontier {
            for i in 0..names.len() {
                let mut q = p.clone();
                q.push(i);
                next.push(q);
            }
        }
        paths.extend(next.iter().cloned());
        frontier = next;
    }
    let mut out = vec![];
    for p in &paths {
        for k in 0..spellings {
            let path: Vec<Vec<u8>> = p.iter().map(|&i| spell(&names[i], k)).collect();
            for leading_colon in [false, true] {
                for query in [false, true] {
                    out.push(UnitHdr {
                        hdr: Hdr::Compound {
                            leading_colon,
                            path: path.clone(),
                        },
                        query,
                    });
                }
            }
        }
    }
    // names with a numeric suffix that is congruent to the defined one modulo 2^8 / 2^16 (and to the
    // default suffix 1): they designate no node
    for n in names.iter().filter(|n| n.as_str() != "ZZZ") {
        let (short, _, suf) = split_def(n.as_bytes()).unwrap();
        let base: u64 = if suf.is_empty() { 1 } else { String::from_utf8_lossy(suf).parse().unwrap_or(1) };
        for wrapped in [base + 256, base + 65536] {
            let m = format!("{}{}", String::from_utf8_lossy(short), wrapped).into_bytes();
            for leading_colon in [false, true] {
                out.push(UnitHdr {
                    hdr: Hdr::Compound {
                        leading_colon,
                        path: vec![m.clone()],
                    },
                    query: false,
                });
            }
        }
    }
    for c in ["*CM", "*cm2", "*ZZ"] {
        for query in [false, true] {
            out.push(UnitHdr {
                hdr: Hdr::Common(c.as_bytes().to_vec()),
                query,
            });
        }
    }
    out.sort_by(|a, b| a.text().cmp(&b.text()));
    out.dedup();
    out
}

#[derive(Default)]
struct Acc {
    runs: u64,
    states: u64,
    transitions: u64,
    nontrivial: u64,
    outcomes: std::collections::HashSet<u64>,
    samples: Vec<Value>,
}

/// Run `units` on the real tree and compare with the reference. Returns mismatch description.
fn compare(spec: &TreeSpec, tree: &'static Node<'static, RigDev>, dev: &mut RigDev, units: &[UnitHdr], out: &mut Vec<u8>) -> Result<RefRun, (String, String)> {
    let text = message_text(units);
    out.clear();
    let r = guarded(|| run_vec(tree, dev, &text, out));
    let r = match r {
        Ok(r) => r,
        Err(p) => return Err(("panic".into(), format!("`{}` panicked: {p}", esc(&text)))),
    };
    let exp = run_message(spec, units);
    let got_calls: Vec<(u8, bool)> = dev.calls.iter().map(|c| (c.handler, c.form == Form::Query)).collect();
    let got_err = r.err().map(|e| e.get_code());
    if got_calls != exp.calls {
        // classify: which unit diverged
        let i = got_calls.iter().zip(exp.calls.iter()).take_while(|(a, b)| a == b).count();
        let kind = if i < units.len() {
            match &units[i].hdr {
                Hdr::Common(_) => "common",
                Hdr::Compound { leading_colon: true, .. } => "absolute",
                Hdr::Compound { .. } if i == 0 => "first",
                _ => "relative",
            }
        } else {
            "extra"
        };
        return Err((
            format!("wrong-handler-{kind}"),
            format!("`{}` invoked {:?} (handler,query), SCPI designates {:?}", esc(&text), got_calls, exp.calls),
        ));
    }
    if got_err != exp.error {
        return Err((
            "wrong-result".into(),
            format!("`{}` returned {:?}, reference says {:?}", esc(&text), got_err, exp.error),
        ));
    }
    Ok(exp)
}

fn case_json(spec: &TreeSpec, pre: &[Vec<UnitHdr>], units: &[UnitHdr]) -> Value {
    json!({
        "kind": "message",
        "tree": spec.to_json(),
        "tree_rendered": spec.render(),
        "earlier_messages": pre.iter().map(|m| esc(&message_text(m))).collect::<Vec<_>>(),
        "message": esc(&message_text(units)),
    })
}

fn check_tree(ctx: &Ctx, ti: u64, spec: &TreeSpec, acc: &mut Acc, max_path: usize, spellings: usize, all2: bool, all3: bool) {
    let tree = spec.build();
    let mut dev = RigDev::new();
    let mut out = Vec::with_capacity(64);
    let alpha = unit_alphabet(spec, max_path, spellings);
    let base = ti << 32;

    // BFS over the reference state graph (levels), with shortest witnesses
    let mut witness: BTreeMap<Level, Vec<UnitHdr>> = BTreeMap::new();
    let mut second_witness: BTreeMap<Level, Vec<UnitHdr>> = BTreeMap::new();
    let mut queue: VecDeque<Level> = VecDeque::new();
    witness.insert(vec![], vec![]);
    queue.push_back(vec![]);
    let mut k = 0u64;
    while let Some(level) = queue.pop_front() {
        acc.states += 1;
        let w = witness[&level].clone();
        for u in &alpha {
            let mut units = w.clone();
            units.push(u.clone());
            acc.transitions += 1;
            acc.runs += 1;
            k += 1;
            match compare(spec, tree, &mut dev, &units, &mut out) {
                Ok(exp) => {
                    if exp.nontrivial {
                        acc.nontrivial += 1;
                    }
                    acc.outcomes.insert(fnv(fnv(0, &[exp.error.is_some() as u8]), &exp.calls.iter().flat_map(|c| [c.0, c.1 as u8]).collect::<Vec<_>>()));
                    if exp.error.is_none() {
                        if !witness.contains_key(&exp.final_level) {
                            witness.insert(exp.final_level.clone(), units.clone());
                            queue.push_back(exp.final_level.clone());
                        } else if !second_witness.contains_key(&exp.final_level) && witness[&exp.final_level] != units && !units.is_empty() {
                            second_witness.insert(exp.final_level.clone(), units.clone());
                        }
                    }
                    if acc.samples.len() < 3 && exp.nontrivial && exp.calls.len() >= 2 && k % 97 == 0 {
                        acc.samples.push(json!({"tree": spec.render(), "message": esc(&message_text(&units)), "handlers_invoked": exp.calls, "error": exp.error}));
                    }
                }
                Err((key, what)) => {
                    ctx.violation(base + k, &key, &format!("tree {} :: {}", spec.render(), what), case_json(spec, &[], &units));
                }
            }
        }
    }
    // two different witnesses of the same level must behave identically for every continuation
    for (level, w2) in &second_witness {
        let _ = level;
        for u in &alpha {
            let mut units = w2.clone();
            units.push(u.clone());
            acc.runs += 1;
            k += 1;
            if let Err((key, what)) = compare(spec, tree, &mut dev, &units, &mut out) {
                ctx.violation(base + k, &key, &format!("tree {} :: {}", spec.render(), what), case_json(spec, &[], &units));
            }
        }
    }
    // all 2-unit (3-unit) messages in spelling 0, without witness assumption
    if all2 {
        let a0 = unit_alphabet(spec, max_path.min(2), 1);
        for u1 in &a0 {
            for u2 in &a0 {
                let units = [u1.clone(), u2.clone()];
                acc.runs += 1;
                k += 1;
                if let Err((key, what)) = compare(spec, tree, &mut dev, &units, &mut out) {
                    ctx.violation(base + k, &key, &format!("tree {} :: {}", spec.render(), what), case_json(spec, &[], &units));
                }
            }
        }
        if all3 {
            let a1 = unit_alphabet(spec, 1, 1);
            for u1 in &a0 {
                for u2 in &a1 {
                    for u3 in &a1 {
                        let units = [u1.clone(), u2.clone(), u3.clone()];
                        acc.runs += 1;
                        k += 1;
                        if let Err((key, what)) = compare(spec, tree, &mut dev, &units, &mut out) {
                            ctx.violation(base + k, &key, &format!("tree {} :: {}", spec.render(), what), case_json(spec, &[], &units));
                        }
                    }
                }
            }
        }
    }
    // histories: after a failing message and after a message ending deep, every 1-unit message
    // must behave as on a fresh device (each message starts at the root)
    let deep: Option<Vec<UnitHdr>> = witness.iter().max_by_key(|(l, _)| l.len()).map(|(_, w)| w.clone());
    let failing = vec![UnitHdr {
        hdr: Hdr::Compound {
            leading_colon: false,
            path: vec![b"ZZZ".to_vec()],
        },
        query: false,
    }];
    for pre in [Some(failing), deep].into_iter().flatten() {
        if pre.is_empty() {
            continue;
        }
        for u in &alpha {
            let text = message_text(&pre);
            out.clear();
            let _ = guarded(|| run_vec(tree, &mut dev, &text, &mut out));
            acc.runs += 1;
            k += 1;
            if let Err((key, what)) = compare(spec, tree, &mut dev, std::slice::from_ref(u), &mut out) {
                ctx.violation(
                    base + k,
                    &format!("history-{key}"),
                    &format!("tree {} after message `{}` :: {}", spec.render(), esc(&text), what),
                    case_json(spec, &[pre.clone()], std::slice::from_ref(u)),
                );
            }
        }
    }
}

fn csv_self_check() -> Result<(), String> {
    // the repository's own traversal test tree and every row of tests/csv/tree_traversal.csv
    let t = TreeSpec::root(vec![
        TreeSpec::leaf("*COM", 20),
        TreeSpec::branch("INITiate", vec![TreeSpec::dbranch("IMMediate", vec![TreeSpec::dleaf("ALL", 0)])]),
        TreeSpec::branch(
            "CONFigure",
            vec![
                TreeSpec::dleaf("", 1),
                TreeSpec::dbranch("SCALar", vec![TreeSpec::branch("VOLTage", vec![TreeSpec::leaf("AC", 2), TreeSpec::dleaf("DC", 3)])]),
            ],
        ),
        TreeSpec::branch(
            "SYSTem",
            vec![
                TreeSpec::branch("ERRor", vec![TreeSpec::leaf("ALL", 11), TreeSpec::leaf("COUNt", 12), TreeSpec::dleaf("NEXT", 13)]),
                TreeSpec::leaf("VERSion", 10),
            ],
        ),
    ]);
    let rows: &[(&str, &[u8])] = &[
        ("syst:version?;err:next?;count?", &[10, 13, 12]),
        ("syst:version?;:syst:err:next?;count?", &[10, 13, 12]),
        ("syst:version?;*com?;err:next?", &[10, 20, 13]),
        ("syst:version?;err?;version?", &[10, 13, 10]),
        ("conf?", &[1]),
        ("conf:scal:volt:dc?", &[3]),
        ("conf:scal:volt:ac?", &[2]),
        ("conf:scal:volt?", &[3]),
        ("conf:volt?", &[3]),
        ("initiate?", &[0]),
        ("init:immediate?", &[0]),
        ("init:imm:all?", &[0]),
    ];
    for (m, want) in rows {
        let units = parse_units(m.as_bytes());
        let r = run_message(&t, &units);
        let got: Vec<u8> = r.calls.iter().map(|c| c.0).collect();
        if r.error.is_some() || got != *want {
            return Err(format!("resolver self-check failed on `{m}`: {:?} / {:?}", got, r.error));
        }
    }
    Ok(())
}

/// Parse a well-formed header-only message back into units (used by self-check and replay).
pub fn parse_units(m: &[u8]) -> Vec<UnitHdr> {
    let mut out = vec![];
    for u in m.split(|c| *c == b';') {
        let (u, query) = match u.strip_suffix(b"?") {
            Some(x) => (x, true),
            None => (u, false),
        };
        if u.starts_with(b"*") {
            out.push(UnitHdr {
                hdr: Hdr::Common(u.to_vec()),
                query,
            });
        } else {
            let (u, leading_colon) = match u.strip_prefix(b":") {
                Some(x) => (x, true),
                None => (u, false),
            };
            out.push(UnitHdr {
                hdr: Hdr::Compound {
                    leading_colon,
                    path: u.split(|c| *c == b':').map(|s| s.to_vec()).collect(),
                },
                query,
            });
        }
    }
    out
}

/// The same small tree built three ways - with the `Root!` / `Branch!` / `Leaf!` macros, with the
/// `Node::root / branch / default_branch / leaf / default_leaf` constructors, and as a `TreeSpec` for
/// the reference resolver - and every one- and two-unit message over a header list run on both.
fn api_built_trees(ctx: &Ctx, base: u64) -> u64 {
    use crate::rig::{RigDev, HANDLERS};
    use scpi::tree::Node;
    use scpi::{Branch, Leaf, Root};
    let spec = TreeSpec::root(vec![
        TreeSpec::leaf("*CM", 9),
        TreeSpec::branch("ALPHa", vec![TreeSpec::dleaf("BETa", 0), TreeSpec::leaf("GAMMa", 1)]),
        TreeSpec::dbranch("DEF", vec![TreeSpec::leaf("IN", 2)]),
        TreeSpec::branch("ANON", vec![TreeSpec::dleaf("", 3), TreeSpec::leaf("X", 4)]),
    ]);
    let by_macro: Node<RigDev> = Root![
        Leaf!(b"*CM" => &HANDLERS[9]),
        Branch!(b"ALPHa"; Leaf!(default b"BETa" => &HANDLERS[0]), Leaf!(b"GAMMa" => &HANDLERS[1])),
        Branch!(default b"DEF"; Leaf!(b"IN" => &HANDLERS[2])),
        Branch!(b"ANON" => &HANDLERS[3]; Leaf!(b"X" => &HANDLERS[4]))
    ];
    let alph = [Node::default_leaf(b"BETa", &HANDLERS[0]), Node::leaf(b"GAMMa", &HANDLERS[1])];
    let def = [Node::leaf(b"IN", &HANDLERS[2])];
    let anon = [Node::default_leaf(b"", &HANDLERS[3]), Node::leaf(b"X", &HANDLERS[4])];
    let top = [Node::leaf(b"*CM", &HANDLERS[9]), Node::branch(b"ALPHa", &alph), Node::default_branch(b"DEF", &def), Node::branch(b"ANON", &anon)];
    let by_fn: Node<RigDev> = Node::root(&top);
    let texts = ["*CM", "ALPH", "ALPH:BET", "ALPH:GAMM", "IN", "DEF:IN", "DEF", "ANON", "ANON:X", "X", "GAMM", ":ALPH:GAMM", "BET", ":IN", ":DEF:IN", "ALPHA:BETA"];
    let parse = |t: &str, query: bool| -> UnitHdr {
        if t.starts_with('*') {
            UnitHdr { hdr: Hdr::Common(t.as_bytes().to_vec()), query }
        } else {
            let leading_colon = t.starts_with(':');
            let body = t.trim_start_matches(':');
            UnitHdr { hdr: Hdr::Compound { leading_colon, path: body.split(':').map(|m| m.as_bytes().to_vec()).collect() }, query }
        }
    };
    let mut units = vec![];
    for t in texts {
        for q in [false, true] {
            units.push(parse(t, q));
        }
    }
    let mut msgs: Vec<Vec<UnitHdr>> = units.iter().map(|u| vec![u.clone()]).collect();
    for a in &units {
        for b in &units {
            msgs.push(vec![a.clone(), b.clone()]);
        }
    }
    let mut n = 0u64;
    for (mi, m) in msgs.iter().enumerate() {
        let want = run_message(&spec, m);
        let text = message_text(m);
        for (how, tree) in [("Root!/Branch!/Leaf! macros", &by_macro), ("Node::root/branch/leaf constructors", &by_fn)] {
            n += 1;
            let mut dev = RigDev::new();
            dev.reset_obs(&text);
            let mut out: Vec<u8> = Vec::new();
            let mut c = scpi::tree::prelude::Context::default();
            let r = match guarded(|| tree.run(&text, &mut dev, &mut c, &mut out)) {
                Ok(r) => r,
                Err(p) => {
                    ctx.violation(base + mi as u64, "panic", &format!("tree built with {how}: `{}` panicked: {p}", esc(&text)), json!({"kind": "api-tree", "message": esc(&text)}));
                    continue;
                }
            };
            let calls: Vec<(u8, bool)> = dev.calls.iter().map(|c| (c.handler, c.form == crate::rig::Form::Query)).collect();
            let err = r.err().map(|e| e.get_code());
            if calls != want.calls || err != want.error {
                ctx.violation(base + mi as u64, "api-built-tree", &format!("tree {} built with {how}: `{}` invoked {:?} and returned {:?}; SCPI designates {:?} / {:?}", spec.render(), esc(&text), calls, err, want.calls, want.error), json!({"kind": "api-tree", "message": esc(&text)}));
            }
        }
    }
    n
}

pub fn run(ctx: &'static Ctx) -> i32 {
    if let Err(e) = csv_self_check() {
        engine_failure(&e);
    }
    let (n, depth, max_path, spellings, all3) = ctx.tier.pick((3usize, 3u32, 2usize, 4usize, false), (4, 3, 3, 4, true));
    let trees = tree_family(n, depth);
    let ntrees = trees.len() as u64;
    let accs = par_sweep(
        ctx,
        ntrees,
        SweepOpts {
            name: "C02 trees",
            chunk: 1,
            hang_secs: 120,
        },
        Acc::default,
        |ti, acc: &mut Acc| {
            let spec = &trees[ti as usize];
            let mut nodes = vec![];
            names_of(spec, &mut nodes);
            // 3-unit messages only for small trees
            let small = count_nodes(spec) <= 3 + 2;
            check_tree(ctx, ti, spec, acc, max_path, spellings, true, all3 && small);
        },
        |ti| json!({"kind": "tree-index", "index": ti}),
    );
    let mut tot = Acc::default();
    for a in accs {
        tot.runs += a.runs;
        tot.states += a.states;
        tot.transitions += a.transitions;
        tot.nontrivial += a.nontrivial;
        tot.outcomes.extend(a.outcomes);
        for s in a.samples {
            if tot.samples.len() < 8 {
                tot.samples.push(s);
            }
        }
    }
    let api_runs = api_built_trees(ctx, ntrees + 1);
    tot.runs += api_runs;
    if tot.samples.is_empty() {
        tot.samples.push(json!({"tree": trees[0].render()}));
    }
    let mut c = cov();
    c.insert("states".into(), json!(tot.states));
    c.insert("transitions".into(), json!(tot.transitions));
    c.insert("traces_validated_against_impl".into(), json!(tot.runs));
    c.insert("evaluations".into(), json!(tot.runs));
    c.insert("runs_on_trees_built_with_macros_and_constructors".into(), json!(api_runs));
    c.insert("distinct_nontrivial".into(), json!(tot.nontrivial));
    c.insert("distinct_outcomes".into(), json!(tot.outcomes.len()));
    c.insert("trees".into(), json!(ntrees));
    c.insert("rule".into(), json!(format!("tree family: all unambiguous trees with <= {n} nodes below the root (depth <= {depth}, <= 3 children per branch, names from {{ALPHa,BETa,ALPHa2,BETa1,GAMMa3,anonymous default leaf}}, pairwise non-matching siblings, optional default leaf and default branch per branch in first or pool-order position) plus root-only common commands *CM,*CM2. Per tree the reference resolver's state graph (state = header level) is explored breadth-first; alphabet = {{relative, leading-colon}} x every mnemonic path of length 1..{max_path} over the tree's names and one foreign mnemonic, in {spellings} spellings (SHORT, longform, MiXed, suffix-1 explicit/omitted) x {{event, query}} plus common commands; each (state, unit) transition is validated by running `witness(state);unit` through the real Node::run and comparing handler log and return value; plus second-witness continuations, all 2-unit messages{}, and every unit after a failing / deep earlier message. Non-trivial = executions whose resolution is relative from a non-root level or crosses a default node", if all3 { " and all 3-unit messages on trees with <= 3 nodes" } else { "" })));
    c.insert("exhaustive".into(), json!(true));
    c.insert("samples".into(), Value::Array(tot.samples));
    ctx.finish(
        "model_checking",
        c,
        vec![
            "trees obey SCPI's unambiguity requirement (a name is not reachable both directly and through an omitted default branch)".into(),
            "handlers succeed and take no parameters (parameters are C06, failures C05)".into(),
            "the reference resolver (refmodel/resolver.rs) is validated against every row of the repository's tree_traversal.csv before use".into(),
        ],
    )
}

fn count_nodes(t: &TreeSpec) -> usize {
    match t {
        TreeSpec::Leaf { .. } => 1,
        TreeSpec::Branch { sub, .. } => 1 + sub.iter().map(count_nodes).sum::<usize>(),
    }
}

pub fn replay(case: &Value) -> Result<String, String> {
    if case["kind"] == "api-tree" {
        let ctx2: &'static Ctx = Box::leak(Box::new(Ctx::new("C02", Tier::Quick)));
        api_built_trees(ctx2, 0);
        return if ctx2.violation_count() > 0 { Err("api-built-tree: a tree built with the macros / constructors still resolves differently".into()) } else { Ok("trees built with macros and constructors resolve as designated".into()) };
    }
    let spec = TreeSpec::from_json(&case["tree"]).unwrap_or_else(|| engine_failure("bad C02 replay tree"));
    let tree = spec.build();
    let mut dev = RigDev::new();
    let mut out = vec![];
    if let Some(pre) = case["earlier_messages"].as_array() {
        for m in pre {
            let text = unesc(m.as_str().unwrap());
            let _ = guarded(|| run_vec(tree, &mut dev, &text, &mut out));
            out.clear();
        }
    }
    let units = parse_units(&unesc(case["message"].as_str().unwrap()));
    match compare(&spec, tree, &mut dev, &units, &mut out) {
        Ok(exp) => Ok(format!("{:?}", exp.calls)),
        Err((k, w)) => Err(format!("{k}: {w}")),
    }
}
