//! Shared infrastructure: tiers, violation reporting with known-findings matching,
//! evidence writer, parallel sweep runner with watchdog, panic capture, byte escaping.

use serde_json::{json, Map, Value};
use std::cell::RefCell;
use std::collections::BTreeMap;
use std::panic::{catch_unwind, AssertUnwindSafe};
use std::sync::atomic::{AtomicBool, AtomicU64, Ordering};
use std::sync::Mutex;
use std::time::{Duration, Instant};

pub const VERIF_DIR: &str = "/verif";

#[derive(Clone, Copy, PartialEq, Eq, Debug)]
pub enum Tier {
    Quick,
    Thorough,
}
impl Tier {
    pub fn name(self) -> &'static str {
        match self {
            Tier::Quick => "quick",
            Tier::Thorough => "thorough",
        }
    }
    pub fn pick<T>(self, q: T, t: T) -> T {
        match self {
            Tier::Quick => q,
            Tier::Thorough => t,
        }
    }
}

/// Which build profile this binary was compiled under.
pub fn profile_name() -> &'static str {
    if cfg!(debug_assertions) {
        "dbg(opt3+debug-assertions+overflow-checks)"
    } else {
        "release"
    }
}

// ---------------------------------------------------------------------------------------
// Byte escaping (replay files and samples must be valid JSON strings but carry raw bytes)

pub fn esc(b: &[u8]) -> String {
    let mut s = String::with_capacity(b.len());
    for &c in b {
        match c {
            b'\\' => s.push_str("\\\\"),
            b'\n' => s.push_str("\\n"),
            b'\t' => s.push_str("\\t"),
            0x20..=0x7e => s.push(c as char),
            _ => s.push_str(&format!("\\x{:02x}", c)),
        }
    }
    s
}

pub fn unesc(s: &str) -> Vec<u8> {
    let b = s.as_bytes();
    let mut out = Vec::with_capacity(b.len());
    let mut i = 0;
    while i < b.len() {
        if b[i] == b'\\' && i + 1 < b.len() {
            match b[i + 1] {
                b'\\' => {
                    out.push(b'\\');
                    i += 2;
                }
                b'n' => {
                    out.push(b'\n');
                    i += 2;
                }
                b't' => {
                    out.push(b'\t');
                    i += 2;
                }
                b'x' if i + 3 < b.len() => {
                    let h = std::str::from_utf8(&b[i + 2..i + 4]).unwrap();
                    out.push(u8::from_str_radix(h, 16).expect("bad \\x escape"));
                    i += 4;
                }
                _ => {
                    out.push(b[i]);
                    i += 1;
                }
            }
        } else {
            out.push(b[i]);
            i += 1;
        }
    }
    out
}

// ---------------------------------------------------------------------------------------
// Panic capture

thread_local! {
    static LAST_PANIC: RefCell<Option<String>> = RefCell::new(None);
}
static QUIET_PANICS: AtomicBool = AtomicBool::new(false);

pub fn install_panic_hook() {
    let default = std::panic::take_hook();
    std::panic::set_hook(Box::new(move |info| {
        let loc = info
            .location()
            .map(|l| format!("{}:{}", l.file(), l.line()))
            .unwrap_or_default();
        let msg = if let Some(s) = info.payload().downcast_ref::<&str>() {
            s.to_string()
        } else if let Some(s) = info.payload().downcast_ref::<String>() {
            s.clone()
        } else {
            "<non-string panic>".to_string()
        };
        LAST_PANIC.with(|p| *p.borrow_mut() = Some(format!("{msg} @ {loc}")));
        if !QUIET_PANICS.load(Ordering::Relaxed) {
            default(info);
        }
    }));
}

/// Run `f`, catching an unwinding panic. Returns Err(panic description).
pub fn guarded<T>(f: impl FnOnce() -> T) -> Result<T, String> {
    QUIET_PANICS.store(true, Ordering::Relaxed);
    let r = catch_unwind(AssertUnwindSafe(f));
    match r {
        Ok(v) => Ok(v),
        Err(_) => Err(LAST_PANIC
            .with(|p| p.borrow_mut().take())
            .unwrap_or_else(|| "<panic>".into())),
    }
}

/// Was this panic (as described by the hook: `message @ file:line`) raised by harness code? The
/// harness is compiled from its own directory, so its locations are relative (`src/...`); library
/// code is compiled by absolute path, and the standard library reports its callers (`#[track_caller]`).
pub fn panic_in_harness(desc: &str) -> bool {
    match desc.rsplit_once(" @ ") {
        Some((_, loc)) => loc.starts_with("src/") || loc.starts_with("build.rs"),
        None => true,
    }
}

/// Engine failure: the machinery itself is broken. Never a verdict.
pub fn engine_failure(msg: &str) -> ! {
    QUIET_PANICS.store(false, Ordering::Relaxed);
    eprintln!("ENGINE-FAILURE: {msg}");
    std::process::exit(2);
}

// ---------------------------------------------------------------------------------------
// Known findings

#[derive(Clone, Debug)]
pub struct Known {
    pub property: String,
    pub key: String,
    pub what: String,
}

pub fn load_known() -> Vec<Known> {
    let path = format!("{VERIF_DIR}/known_findings.txt");
    let text = match std::fs::read_to_string(&path) {
        Ok(t) => t,
        Err(_) => return vec![],
    };
    let mut out = vec![];
    for line in text.lines() {
        let line = line.trim();
        // Only `known:` lines suppress anything; `fixed:` lines are a record.
        if let Some(rest) = line.strip_prefix("known:") {
            let rest = rest.trim();
            let mut property = String::new();
            let mut key = String::new();
            let mut what = String::new();
            let mut it = rest.splitn(3, ' ');
            if let Some(p) = it.next() {
                property = p.trim_start_matches("property=").to_string();
            }
            if let Some(k) = it.next() {
                key = k.trim_start_matches("key=").to_string();
            }
            if let Some(w) = it.next() {
                what = w.to_string();
            }
            if property.is_empty() || key.is_empty() {
                engine_failure(&format!("malformed known_findings line: {line}"));
            }
            out.push(Known { property, key, what });
        }
    }
    out
}

// ---------------------------------------------------------------------------------------
// Check context: collects violations, known hits, stats

pub struct Violation {
    pub order: u64,
    pub key: String,
    pub what: String,
    pub replay: Value,
}

pub struct Ctx {
    pub id: &'static str,
    pub tier: Tier,
    pub seed: u64,
    pub start: Instant,
    pub threads: usize,
    known: Vec<Known>,
    violations: Mutex<Vec<Violation>>,
    nviol: AtomicU64,
    known_hits: Mutex<BTreeMap<String, (u64, String)>>,
}

const MAX_KEPT_VIOLATIONS: usize = 64;

impl Ctx {
    pub fn new(id: &'static str, tier: Tier) -> Self {
        let seed = std::env::var("VERIF_SEED")
            .ok()
            .and_then(|s| s.parse::<i64>().ok())
            .unwrap_or(0) as u64;
        let threads = std::env::var("VERIF_THREADS")
            .ok()
            .and_then(|s| s.parse().ok())
            .unwrap_or_else(|| {
                std::thread::available_parallelism()
                    .map(|n| n.get())
                    .unwrap_or(4)
            });
        let known = load_known()
            .into_iter()
            .filter(|k| k.property == id)
            .collect();
        Ctx {
            id,
            tier,
            seed,
            start: Instant::now(),
            threads,
            known,
            violations: Mutex::new(vec![]),
            nviol: AtomicU64::new(0),
            known_hits: Mutex::new(BTreeMap::new()),
        }
    }

    pub fn is_known(&self, key: &str) -> bool {
        self.known.iter().any(|k| k.key == key)
    }

    /// Report a failing case. `key` classifies the failure (see known_findings.txt);
    /// `order` is the enumeration index used to report the smallest case first.
    /// Returns true if it was a *listed* finding (exploration may continue past it).
    pub fn violation(&self, order: u64, key: &str, what: &str, replay: Value) -> bool {
        if let Some(k) = self.known.iter().find(|k| k.key == key) {
            let mut h = self.known_hits.lock().unwrap();
            let e = h.entry(key.to_string()).or_insert((0, k.what.clone()));
            e.0 += 1;
            return true;
        }
        self.nviol.fetch_add(1, Ordering::Relaxed);
        let mut v = self.violations.lock().unwrap();
        // keep the few smallest cases of every distinct key (classes must never crowd each other out)
        let same: Vec<usize> = v.iter().enumerate().filter(|(_, x)| x.key == key).map(|(i, _)| i).collect();
        if same.len() < 3 {
            if v.len() < 4096 {
                v.push(Violation {
                    order,
                    key: key.to_string(),
                    what: what.to_string(),
                    replay,
                });
            }
        } else {
            // replace the largest-order entry of this key if the new one is smaller
            let (imax, omax) = same.iter().map(|&i| (i, v[i].order)).max_by_key(|x| x.1).unwrap();
            if order < omax {
                v[imax] = Violation {
                    order,
                    key: key.to_string(),
                    what: what.to_string(),
                    replay,
                };
            }
        }
        false
    }

    pub fn violation_count(&self) -> u64 {
        self.nviol.load(Ordering::Relaxed)
    }

    pub fn elapsed(&self) -> f64 {
        self.start.elapsed().as_secs_f64()
    }

    /// Write evidence, replay files, print verdict lines; returns process exit code.
    pub fn finish(&self, level: &str, mut coverage: Map<String, Value>, assumptions: Vec<String>) -> i32 {
        let mut viol = self.violations.lock().unwrap();
        viol.sort_by(|a, b| a.order.cmp(&b.order).then(a.key.cmp(&b.key)));
        let hits = self.known_hits.lock().unwrap();
        let nviol = self.nviol.load(Ordering::Relaxed);

        let mut kf = vec![];
        for (k, (n, what)) in hits.iter() {
            println!("KNOWN-FINDING: property={} key={} {} (re-observed on {} cases)", self.id, k, what, n);
            kf.push(json!({"key": k, "cases": n, "what": what}));
        }
        coverage.insert("known_findings_reobserved".into(), Value::Array(kf));
        coverage.insert("build_profile".into(), json!(profile_name()));
        coverage.insert("threads".into(), json!(self.threads));

        // replay files
        let dir = format!("{VERIF_DIR}/replays/{}{}", self.id, if cfg!(debug_assertions) { "-dbg" } else { "" });
        let _ = std::fs::remove_dir_all(&dir);
        let mut distinct_keys: BTreeMap<String, u64> = BTreeMap::new();
        for v in viol.iter() {
            *distinct_keys.entry(v.key.clone()).or_insert(0) += 1;
        }
        if !viol.is_empty() {
            std::fs::create_dir_all(&dir).ok();
            // one replay per distinct key first (up to cap), smallest order first
            let mut written: BTreeMap<String, usize> = BTreeMap::new();
            let mut n = 0;
            for v in viol.iter() {
                let c = written.entry(v.key.clone()).or_insert(0);
                if *c >= 2 || n >= MAX_KEPT_VIOLATIONS {
                    continue;
                }
                *c += 1;
                n += 1;
                let path = format!("{dir}/{:03}.json", n);
                let body = json!({
                    "property": self.id,
                    "key": v.key,
                    "what": v.what,
                    "build_profile": profile_name(),
                    "case": v.replay,
                });
                std::fs::write(&path, serde_json::to_string_pretty(&body).unwrap()).ok();
                println!("VIOLATION property={} replay={} key={} :: {}", self.id, path, v.key, v.what);
            }
        }

        let ev = json!({
            "property_id": self.id,
            "tier": self.tier.name(),
            "seed": self.seed as i64,
            "level": level,
            "coverage": Value::Object(coverage),
            "assumptions": assumptions,
            "wall_s": self.elapsed(),
            "violations": nviol as i64,
        });
        let suffix = if cfg!(debug_assertions) { ".dbg" } else { "" };
        // The release-profile run owns evidence/<id>.json; a dbg-profile run writes a side file
        // that the release run (invoked afterwards by ./check) merges in.
        let path = format!("{VERIF_DIR}/evidence/{}{}.json", self.id, suffix);
        std::fs::create_dir_all(format!("{VERIF_DIR}/evidence")).ok();
        std::fs::write(&path, serde_json::to_string_pretty(&ev).unwrap())
            .unwrap_or_else(|e| engine_failure(&format!("cannot write evidence: {e}")));

        if nviol > 0 {
            println!(
                "{}: {} violating cases in {} classes ({:.1}s)",
                self.id,
                nviol,
                distinct_keys.len(),
                self.elapsed()
            );
            1
        } else {
            println!("{}: OK ({}, {:.1}s)", self.id, self.tier.name(), self.elapsed());
            0
        }
    }
}

// ---------------------------------------------------------------------------------------
// Parallel sweep with watchdog

pub struct SweepOpts {
    pub name: &'static str,
    pub chunk: u64,
    /// seconds without progress on one case before it is declared a hang
    pub hang_secs: u64,
}

/// When set (C01), every worker journals the chunk it is about to run, so that a process death
/// (abort, stack overflow) can be attributed to a small range of cases.
pub static JOURNAL: AtomicBool = AtomicBool::new(false);

pub fn journal_dir() -> String {
    format!("{VERIF_DIR}/replays/journal-{}", if cfg!(debug_assertions) { "dbg" } else { "release" })
}

impl Default for SweepOpts {
    fn default() -> Self {
        SweepOpts {
            name: "sweep",
            chunk: 4096,
            hang_secs: 30,
        }
    }
}

/// Runs `f(idx, &mut local)` for every idx in 0..total on `ctx.threads` threads. Each thread owns
/// an `S` accumulator (created by `mk`); all are returned. A watchdog declares non-termination if
/// one case takes longer than `hang_secs`: the case (rendered by `describe`) is reported as a
/// violation with key `hang` and the process exits 1 (a stuck thread cannot be joined).
pub fn par_sweep<S, MK, F, D>(ctx: &Ctx, total: u64, opts: SweepOpts, mk: MK, f: F, describe: D) -> Vec<S>
where
    S: Send,
    MK: Fn() -> S + Sync,
    F: Fn(u64, &mut S) + Sync,
    D: Fn(u64) -> Value + Sync,
{
    let threads = ctx.threads.max(1);
    QUIET_PANICS.store(true, Ordering::Relaxed);
    let next = AtomicU64::new(0);
    let done = AtomicBool::new(false);
    // per-thread (current idx + 1, or 0 when idle)
    let cur: Vec<AtomicU64> = (0..threads).map(|_| AtomicU64::new(0)).collect();
    let mut results = vec![];
    std::thread::scope(|sc| {
        let mut handles = vec![];
        for t in 0..threads {
            let next = &next;
            let cur = &cur;
            let f = &f;
            let mk = &mk;
            let describe = &describe;
            let chunk = opts.chunk;
            handles.push(sc.spawn(move || {
                let mut local = mk();
                loop {
                    let start = next.fetch_add(chunk, Ordering::Relaxed);
                    if start >= total {
                        break;
                    }
                    let end = (start + chunk).min(total);
                    if JOURNAL.load(Ordering::Relaxed) {
                        let _ = std::fs::write(format!("{}/{t}.txt", journal_dir()), format!("{} {start} {end}\n", opts.name));
                    }
                    for idx in start..end {
                        cur[t].store(idx + 1, Ordering::Relaxed);
                        // a panic that escapes the per-case guards: if it was raised in library code it is
                        // a verdict on this case (the library does not process the input totally), if it
                        // was raised in the harness it is a machinery failure
                        if let Err(p) = catch_unwind(AssertUnwindSafe(|| f(idx, &mut local))).map_err(|_| LAST_PANIC.with(|p| p.borrow_mut().take()).unwrap_or_else(|| "<panic>".into())) {
                            if panic_in_harness(&p) {
                                engine_failure(&format!("worker thread panicked in harness code on case {idx} of sweep '{}': {p}", opts.name));
                            }
                            ctx.violation(idx, "panic", &format!("case {idx} of sweep '{}': the library panicked: {p}", opts.name), describe(idx));
                        }
                    }
                }
                cur[t].store(0, Ordering::Relaxed);
                if JOURNAL.load(Ordering::Relaxed) {
                    let _ = std::fs::remove_file(format!("{}/{t}.txt", journal_dir()));
                }
                local
            }));
        }
        let wd = sc.spawn(|| {
            let mut last: Vec<(u64, Instant)> = (0..threads).map(|_| (0, Instant::now())).collect();
            while !done.load(Ordering::Relaxed) {
                std::thread::sleep(Duration::from_millis(100));
                for t in 0..threads {
                    let c = cur[t].load(Ordering::Relaxed);
                    if c == 0 || c != last[t].0 {
                        last[t] = (c, Instant::now());
                    } else if last[t].1.elapsed().as_secs() >= opts.hang_secs {
                        let idx = c - 1;
                        ctx.violation(
                            idx,
                            "hang",
                            &format!("case {idx} of sweep '{}' did not terminate within {}s", opts.name, opts.hang_secs),
                            describe(idx),
                        );
                        let mut c = cov();
                        c.insert("evaluations".into(), json!(idx));
                        c.insert("aborted_by_watchdog".into(), json!(true));
                        ctx.finish("exploration", c, vec![]);
                        std::process::exit(1);
                    }
                }
            }
        });
        for h in handles {
            match h.join() {
                Ok(s) => results.push(s),
                Err(_) => engine_failure("worker thread panicked outside a guarded case"),
            }
        }
        done.store(true, Ordering::Relaxed);
        let _ = wd.join();
    });
    results
}

// ---------------------------------------------------------------------------------------
// Enumeration helpers

/// Number of strings of length exactly `len` over an alphabet of `k` symbols.
pub fn pow(k: u64, len: u32) -> u64 {
    k.pow(len)
}

/// Total number of strings with length in 0..=n.
pub fn count_upto(k: u64, n: u32) -> u64 {
    (0..=n).map(|l| pow(k, l)).sum()
}

/// Decode idx (0-based over all strings of length 0..=n, shortest first, alphabet order) into buf.
/// Returns length.
pub fn nth_string(alpha: &[u8], mut idx: u64, buf: &mut [u8]) -> usize {
    let k = alpha.len() as u64;
    let mut len = 0u32;
    loop {
        let c = pow(k, len);
        if idx < c {
            break;
        }
        idx -= c;
        len += 1;
    }
    let l = len as usize;
    for i in (0..l).rev() {
        buf[i] = alpha[(idx % k) as usize];
        idx /= k;
    }
    l
}

/// Small collector of sample cases for evidence.
#[derive(Default)]
pub struct Samples {
    pub items: Vec<Value>,
    pub cap: usize,
}
impl Samples {
    pub fn new(cap: usize) -> Self {
        Samples { items: vec![], cap }
    }
    pub fn push(&mut self, v: Value) {
        if self.items.len() < self.cap {
            self.items.push(v);
        }
    }
    pub fn merge(&mut self, o: Samples) {
        for v in o.items {
            self.push(v);
        }
    }
}

pub fn cov() -> Map<String, Value> {
    Map::new()
}

/// FNV-1a, for cheap distinct-outcome counting without allocation.
pub fn fnv(h: u64, bytes: &[u8]) -> u64 {
    let mut h = if h == 0 { 0xcbf29ce484222325 } else { h };
    for &b in bytes {
        h ^= b as u64;
        h = h.wrapping_mul(0x100000001b3);
    }
    h
}

/// Truncate a message for display, on a character boundary.
pub fn trunc(s: &str, n: usize) -> &str {
    if s.len() <= n {
        return s;
    }
    let mut e = n;
    while !s.is_char_boundary(e) {
        e -= 1;
    }
    &s[..e]
}
