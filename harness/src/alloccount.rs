//! Counting global allocator: counts allocator calls made by the current thread while armed.
use std::alloc::{GlobalAlloc, Layout, System};
use std::cell::Cell;

pub struct Counting;

thread_local! {
    static ARMED: Cell<bool> = const { Cell::new(false) };
    static COUNT: Cell<u64> = const { Cell::new(0) };
}

#[inline]
fn bump() {
    // try_with: never panic inside the allocator (thread teardown)
    let _ = ARMED.try_with(|a| {
        if a.get() {
            let _ = COUNT.try_with(|c| c.set(c.get() + 1));
        }
    });
}

unsafe impl GlobalAlloc for Counting {
    unsafe fn alloc(&self, l: Layout) -> *mut u8 {
        bump();
        System.alloc(l)
    }
    unsafe fn dealloc(&self, p: *mut u8, l: Layout) {
        System.dealloc(p, l)
    }
    unsafe fn alloc_zeroed(&self, l: Layout) -> *mut u8 {
        bump();
        System.alloc_zeroed(l)
    }
    unsafe fn realloc(&self, p: *mut u8, l: Layout, n: usize) -> *mut u8 {
        bump();
        System.realloc(p, l, n)
    }
}

/// Run `f` with allocation counting armed on this thread; returns (result, allocator calls).
pub fn counted<T>(f: impl FnOnce() -> T) -> (T, u64) {
    let before = COUNT.with(|c| c.get());
    ARMED.with(|a| a.set(true));
    let r = f();
    ARMED.with(|a| a.set(false));
    let after = COUNT.with(|c| c.get());
    (r, after - before)
}

/// Self-check: the counter sees a Vec allocation.
pub fn self_check() -> bool {
    let (_, n) = counted(|| {
        let v: Vec<u8> = Vec::with_capacity(32);
        std::hint::black_box(v);
    });
    let (_, z) = counted(|| {
        let a = [0u8; 32];
        std::hint::black_box(a);
    });
    n >= 1 && z == 0
}
