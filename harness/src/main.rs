//! verif-harness: bounded exhaustive checks of the scpi-rs properties C01..C20.
//!
//!   verif-harness <ID> <quick|thorough>
//!   verif-harness --replay <file>

mod alloccount;
#[macro_use]
mod capdispatch;
mod core;
mod dev488;
mod lockstep;
mod scpimodel;
mod props;
mod refmodel;
mod rig;

use crate::core::*;

#[global_allocator]
static GLOBAL: alloccount::Counting = alloccount::Counting;

fn usage() -> ! {
    eprintln!("usage: verif-harness <C01..C20> <quick|thorough> | --replay <file>");
    std::process::exit(2);
}

fn main() {
    install_panic_hook();
    let args: Vec<String> = std::env::args().collect();
    if args.len() == 3 && args[1] == "--replay" {
        std::process::exit(replay_file(&args[2]));
    }
    if args.len() != 3 {
        usage();
    }
    let tier = match args[2].as_str() {
        "quick" => Tier::Quick,
        "thorough" => Tier::Thorough,
        _ => usage(),
    };
    let id: &'static str = Box::leak(args[1].clone().into_boxed_str());
    let ctx: &'static Ctx = Box::leak(Box::new(Ctx::new(id, tier)));
    // machinery self-test (never set by the registered commands): die the way a stack overflow or a
    // double panic in library code would, so that the ./check wrapper's handling can be exercised
    if std::env::var("VERIF_INJECT_MAIN").as_deref() == Ok("abort") {
        std::process::abort();
    }
    let code = run_check(id, ctx);
    std::process::exit(code);
}

fn dispatch(id: &str, ctx: &'static Ctx) -> i32 {
    match id {
        "C01" => props::c01::run(ctx),
        "C02" => props::c02::run(ctx),
        "C03" => props::c03::run(ctx),
        "C04" => props::c04::run(ctx),
        "C05" => props::c05::run(ctx),
        "C06" => props::c06::run(ctx),
        "C07" => props::c07::run(ctx),
        "C08" => props::c08::run(ctx),
        "C09" => props::c09::run(ctx),
        "C10" => props::c10::run(ctx),
        "C11" => props::c11::run(ctx),
        "C12" => props::c12::run(ctx),
        "C14" => props::c14::run(ctx),
        "C13" => props::c13::run(ctx),
        "C15" => props::c15::run(ctx),
        "C16" => props::c16::run(ctx),
        "C17" => props::c17::run(ctx),
        "C18" => props::c18::run(ctx),
        "C19" => props::c19::run(ctx),
        "C20" => props::c20::run(ctx),
        _ => {
            eprintln!("unknown property {id}");
            2
        }
    }
}

/// Run one check. A panic that escapes every per-case guard is a verdict if it was raised by library
/// code (the check could not even finish exploring because the library panics on an explored input)
/// and a machinery failure if it was raised by the harness.
fn run_check(id: &'static str, ctx: &'static Ctx) -> i32 {
    match guarded(|| dispatch(id, ctx)) {
        Ok(code) => code,
        Err(p) => {
            if panic_in_harness(&p) {
                engine_failure(&format!("the harness panicked: {p}"));
            }
            ctx.violation(u64::MAX - 1, "panic", &format!("the library panicked while check {id} was exploring (outside a per-case guard): {p}"), serde_json::json!({"kind": "whole-run", "tier": if ctx.tier == Tier::Thorough { "thorough" } else { "quick" }}));
            let mut c = cov();
            c.insert("aborted_by_library_panic".into(), serde_json::json!(true));
            ctx.finish("exploration", c, vec![])
        }
    }
}

/// Re-execute one recorded violating case, twice, without any explorer.
/// Exit 1 (still violates, identically both times), 0 (no longer violates), 2 (nondeterministic / bad file).
fn replay_file(path: &str) -> i32 {
    let text = std::fs::read_to_string(path).unwrap_or_else(|e| engine_failure(&format!("cannot read {path}: {e}")));
    let v: serde_json::Value = serde_json::from_str(&text).unwrap_or_else(|e| engine_failure(&format!("bad replay json: {e}")));
    let id = v["property"].as_str().unwrap_or_else(|| engine_failure("replay file without property")).to_string();
    let case = &v["case"];
    if case["kind"] == "whole-run" {
        // the recorded violation is a library panic outside any single case: re-run the check
        let idl: &'static str = Box::leak(id.clone().into_boxed_str());
        let tier = if case["tier"] == "thorough" { Tier::Thorough } else { Tier::Quick };
        let ctx: &'static Ctx = Box::leak(Box::new(Ctx::new(idl, tier)));
        return run_check(idl, ctx);
    }
    let run = |case: &serde_json::Value| -> Result<String, String> {
        match id.as_str() {
            "C01" => props::c01::replay(case),
            "C02" => props::c02::replay(case),
            "C03" => props::c03::replay(case),
            "C04" => props::c04::replay(case),
            "C05" => props::c05::replay(case),
            "C06" => props::c06::replay(case),
            "C07" => props::c07::replay(case),
            "C08" => props::c08::replay(case),
            "C09" => props::c09::replay(case),
            "C10" => props::c10::replay(case),
            "C11" => props::c11::replay(case),
            "C14" => props::c14::replay(case),
            "C12" => props::c12::replay(case).map_err(|m| format!("{}: {}", m.key, m.what)),
            "C13" => props::c13::replay(case).map_err(|m| format!("{}: {}", m.key, m.what)),
            "C15" => props::c15::replay(case).map_err(|m| format!("{}: {}", m.key, m.what)),
            "C16" => props::c16::replay(case).map_err(|m| format!("{}: {}", m.key, m.what)),
            "C17" => props::c17::replay(case),
            "C18" => props::c18::replay(case),
            "C19" => props::c19::replay(case),
            "C20" => props::c20::replay(case),
            _ => engine_failure("unknown property in replay file"),
        }
    };
    let run = |case: &serde_json::Value| -> Result<String, String> {
        match guarded(|| run(case)) {
            Ok(r) => r,
            Err(p) if panic_in_harness(&p) => engine_failure(&format!("the harness panicked during replay: {p}")),
            Err(p) => Err(format!("panic: the library panicked: {p}")),
        }
    };
    let a = run(case);
    let b = run(case);
    if a != b {
        eprintln!("ENGINE-FAILURE: replay is not deterministic:\n  1st: {a:?}\n  2nd: {b:?}");
        return 2;
    }
    match a {
        Err(what) => {
            println!("VIOLATION property={id} replay={path} :: {what}");
            1
        }
        Ok(obs) => {
            println!("replay of {path}: property holds on this case now ({obs})");
            0
        }
    }
}
