//! Instrumented device, scriptable handlers and a run-time tree builder for the core `scpi` crate.
//!
//! Nothing here allocates while a message runs (needed by C11): logs are fixed-size arrays.

use arrayvec::ArrayVec;
use scpi::error::{Error, ErrorCode, Result};
use scpi::parser::expression::channel_list::{self, ChannelList};
use scpi::parser::expression::numeric_list::{self, NumericList};
use scpi::parser::format::{Arbitrary, Character, Expression};
use scpi::tree::prelude::*;

// ---------------------------------------------------------------------------------------
// Observations

#[derive(Clone, Copy, PartialEq, Eq, Debug)]
pub enum Form {
    Event,
    Query,
}

#[derive(Clone, Copy, PartialEq, Eq, Debug)]
pub struct Call {
    pub handler: u8,
    pub form: Form,
}

/// A token as seen by a handler, recorded as offsets into the message buffer.
#[derive(Clone, Copy, PartialEq, Eq, Debug)]
pub enum TokRec {
    Chr(usize, usize),
    Num(usize, usize),
    NumSuffix(usize, usize, usize, usize),
    NonDec(u64),
    Str(usize, usize),
    Block(usize, usize),
    Expr(usize, usize),
    /// non-data token handed out as data (would be a bug)
    Other(u8),
}

pub fn tokrec(base: usize, len: usize, t: &Token) -> TokRec {
    let r = |s: &[u8]| -> (usize, usize) {
        let p = s.as_ptr() as usize;
        if p >= base && p + s.len() <= base + len {
            (p - base, p - base + s.len())
        } else {
            (usize::MAX, s.len())
        }
    };
    match t {
        Token::CharacterProgramData(s) => {
            let (a, b) = r(s);
            TokRec::Chr(a, b)
        }
        Token::DecimalNumericProgramData(s) => {
            let (a, b) = r(s);
            TokRec::Num(a, b)
        }
        Token::DecimalNumericSuffixProgramData(s, x) => {
            let (a, b) = r(s);
            let (c, d) = r(x);
            TokRec::NumSuffix(a, b, c, d)
        }
        Token::NonDecimalNumericProgramData(v) => TokRec::NonDec(*v),
        Token::StringProgramData(s) => {
            let (a, b) = r(s);
            TokRec::Str(a, b)
        }
        Token::ArbitraryBlockData(s) => {
            let (a, b) = r(s);
            TokRec::Block(a, b)
        }
        Token::ExpressionProgramData(s) => {
            let (a, b) = r(s);
            TokRec::Expr(a, b)
        }
        Token::HeaderMnemonicSeparator => TokRec::Other(0),
        Token::HeaderQuerySuffix => TokRec::Other(1),
        Token::ProgramMessageUnitSeparator => TokRec::Other(2),
        Token::ProgramHeaderSeparator => TokRec::Other(3),
        Token::ProgramDataSeparator => TokRec::Other(4),
        Token::ProgramMnemonic(_) => TokRec::Other(5),
    }
}

/// Result of one pull performed by a handler.
#[derive(Clone, Copy, PartialEq, Eq, Debug)]
pub enum Pull {
    Tok(TokRec),
    /// optional pull returned Ok(None)
    Absent,
    /// pull returned Err(code)
    Err(i16),
    /// typed pull (`next_data::<u8>` / `next_optional_data::<u8>`) returned this value
    Val(i64),
}

#[derive(Clone, Copy, PartialEq, Eq, Debug)]
pub struct PullRec {
    pub handler: u8,
    pub required: bool,
    pub pull: Pull,
}

// ---------------------------------------------------------------------------------------
// Handler plans

#[derive(Clone, Copy, Debug)]
pub enum Item {
    Header(&'static [u8]),
    I64(i64),
    U8(u8),
    F32(f32),
    F64(f64),
    Bool(bool),
    Str(&'static [u8]),
    Block(&'static [u8]),
    Chr(&'static [u8]),
    Expr(&'static [u8]),
    Utf8(&'static str),
    Err(Error),
    /// a list written as a partially filled `ArrayVec<u8, 8>` (one response data element holding a comma-joined list)
    ListAv(&'static [u8]),
    /// the same list written as a `Vec<u8>` (only on growable-buffer runs: it allocates)
    ListVec(&'static [u8]),
}

#[derive(Clone, Copy, Debug)]
pub struct Plan {
    /// required parameters to pull first
    pub req: u8,
    /// optional parameters to pull afterwards
    pub opt: u8,
    /// apply every typed conversion to every pulled token and look for internal errors
    pub convert: bool,
    /// items written on query (in order)
    pub resp: &'static [Item],
    /// number of items to write before failing (only if `fail` is Some); usize::MAX = all
    pub fail: Option<Error>,
    pub fail_after_items: usize,
    /// call `finish()` result propagation: true = `?` on finish (the documented usage)
    pub propagate_finish: bool,
    /// pull through the typed API: `next_data::<u8>()` for required and
    /// `next_optional_data::<u8>()` for optional parameters, propagating conversion errors
    pub typed_u8: bool,
}

impl Plan {
    pub const NOP: Plan = Plan {
        req: 0,
        opt: 0,
        convert: false,
        resp: &[],
        fail: None,
        fail_after_items: usize::MAX,
        propagate_finish: true,
        typed_u8: false,
    };
    pub const fn pull(req: u8, opt: u8) -> Plan {
        Plan {
            req,
            opt,
            ..Plan::NOP
        }
    }
    pub const fn resp(resp: &'static [Item]) -> Plan {
        Plan { resp, ..Plan::NOP }
    }
}

pub const MAX_HANDLERS: usize = 48;

pub struct RigDev {
    pub plan: [Plan; MAX_HANDLERS],
    pub calls: ArrayVec<Call, 24>,
    pub pulls: ArrayVec<PullRec, 48>,
    pub errors: ArrayVec<Error, 8>,
    /// set if any conversion produced the library's internal-parser-error code
    pub internal_error: bool,
    /// overflow of the fixed-size logs (engine problem, never expected)
    pub log_overflow: bool,
    pub msg_base: usize,
    pub msg_len: usize,
}

impl RigDev {
    pub fn new() -> Self {
        RigDev {
            plan: [Plan::NOP; MAX_HANDLERS],
            calls: ArrayVec::new(),
            pulls: ArrayVec::new(),
            errors: ArrayVec::new(),
            internal_error: false,
            log_overflow: false,
            msg_base: 0,
            msg_len: 0,
        }
    }
    pub fn with_plan(p: Plan) -> Self {
        let mut d = Self::new();
        d.plan = [p; MAX_HANDLERS];
        d
    }
    pub fn reset_obs(&mut self, msg: &[u8]) {
        self.calls.clear();
        self.pulls.clear();
        self.errors.clear();
        self.internal_error = false;
        self.msg_base = msg.as_ptr() as usize;
        self.msg_len = msg.len();
    }
}

impl Device for RigDev {
    fn handle_error(&mut self, err: Error) {
        if self.errors.try_push(err).is_err() {
            self.log_overflow = true;
        }
    }
}

pub fn is_internal_error(e: &Error) -> bool {
    e.get_code() == -300
        && e.get_extended()
            .map_or(false, |x| x.starts_with(b"Internal parser error"))
}

// ---------------------------------------------------------------------------------------
// Conversions applied to every pulled token

#[derive(Copy, Clone, PartialEq, Debug, scpi_derive::ScpiEnum)]
pub enum RigEnum {
    #[scpi(mnemonic = b"BINary")]
    Binary,
    #[scpi(mnemonic = b"REAL")]
    Real,
    #[scpi(mnemonic = b"ASCii1")]
    Ascii1,
    #[scpi(mnemonic = b"ASCii2")]
    Ascii2,
    #[scpi(mnemonic = b"L125")]
    L125,
}

/// Number of typed conversions tried by `convert_all`.
pub const N_CONVERSIONS: usize = 31;

/// Apply every typed conversion to `t`. Returns (number of Ok results, true if an internal
/// error was produced, hash of all outcomes). Iterates list expressions up to their first error,
/// with an iteration cap; exceeding the cap is reported through `runaway`.
pub fn convert_all(t: Token, runaway: &mut bool) -> (u32, bool, u64) {
    use scpi::parser::suffix::{Amplitude, Db};
    use scpi::units::uom::si::f64 as q64;
    use scpi::units::*;
    use scpi_contrib::scpi1999::NumericValue;
    let mut oks = 0u32;
    let mut internal = false;
    let mut h = 0xcbf29ce484222325u64;
    macro_rules! mix {
        ($v:expr) => {{
            h ^= $v as u64;
            h = h.wrapping_mul(0x100000001b3);
        }};
    }
    macro_rules! conv {
        ($ty:ty, $ok:expr) => {{
            let r: core::result::Result<$ty, Error> = <$ty>::try_from(t);
            match r {
                Ok(v) => {
                    oks += 1;
                    #[allow(clippy::redundant_closure_call)]
                    let x: u64 = ($ok)(v);
                    mix!(x);
                }
                Err(e) => {
                    if is_internal_error(&e) {
                        internal = true;
                    }
                    mix!(e.get_code() as i64 as u64 ^ 0x5555);
                }
            }
        }};
    }
    conv!(u8, |v: u8| v as u64);
    conv!(i8, |v: i8| v as i64 as u64);
    conv!(u16, |v: u16| v as u64);
    conv!(i16, |v: i16| v as i64 as u64);
    conv!(u32, |v: u32| v as u64);
    conv!(i32, |v: i32| v as i64 as u64);
    conv!(u64, |v: u64| v);
    conv!(i64, |v: i64| v as u64);
    conv!(usize, |v: usize| v as u64);
    conv!(isize, |v: isize| v as i64 as u64);
    conv!(f32, |v: f32| v.to_bits() as u64);
    conv!(f64, |v: f64| v.to_bits());
    conv!(bool, |v: bool| v as u64);
    conv!(&[u8], |v: &[u8]| crate::core::fnv(0, v));
    conv!(&str, |v: &str| crate::core::fnv(0, v.as_bytes()));
    conv!(Arbitrary, |v: Arbitrary| crate::core::fnv(0, v.0));
    conv!(Character, |v: Character| crate::core::fnv(0, v.0));
    conv!(Expression, |v: Expression| crate::core::fnv(0, v.0));
    conv!(RigEnum, |v: RigEnum| v as u64);
    conv!(ElectricPotential, |v: ElectricPotential| v.value.to_bits() as u64);
    conv!(Time, |v: Time| v.value.to_bits() as u64);
    conv!(q64::Frequency, |v: q64::Frequency| v.value.to_bits());
    conv!(ThermodynamicTemperature, |v: ThermodynamicTemperature| v.value.to_bits() as u64);
    conv!(Amplitude<ElectricPotential>, |v: Amplitude<ElectricPotential>| match v {
        Amplitude::None(x) => x.value.to_bits() as u64,
        Amplitude::Peak(x) => 1 ^ x.value.to_bits() as u64,
        Amplitude::PeakToPeak(x) => 2 ^ x.value.to_bits() as u64,
        Amplitude::Rms(x) => 3 ^ x.value.to_bits() as u64,
    });
    conv!(Db<f32, Power>, |v: Db<f32, Power>| match v {
        Db::None(x) => x.to_bits() as u64,
        Db::Linear(x) => 1 ^ x.value.to_bits() as u64,
        Db::Logarithmic(a, x) => 2 ^ a.to_bits() as u64 ^ x.value.to_bits() as u64,
    });
    conv!(NumericValue<f32>, |v: NumericValue<f32>| match v {
        NumericValue::Value(x) => x.to_bits() as u64,
        NumericValue::Maximum => 1,
        NumericValue::Minimum => 2,
        NumericValue::Default => 3,
        NumericValue::Up => 4,
        NumericValue::Down => 5,
    });
    conv!(NumericValue<u8>, |v: NumericValue<u8>| match v {
        NumericValue::Value(x) => x as u64,
        NumericValue::Maximum => 1001,
        NumericValue::Minimum => 1002,
        NumericValue::Default => 1003,
        NumericValue::Up => 1004,
        NumericValue::Down => 1005,
    });
    conv!(NumericValue<Time>, |v: NumericValue<Time>| match v {
        NumericValue::Value(x) => x.value.to_bits() as u64,
        _ => 7,
    });
    conv!(scpi_contrib::scpi1999::util::Auto, |v: scpi_contrib::scpi1999::util::Auto| v.auto_enabled() as u64);
    // list expressions: iterate to the first error
    {
        let r: core::result::Result<NumericList, Error> = NumericList::try_from(t);
        match r {
            Ok(nl) => {
                oks += 1;
                let cap = match t {
                    Token::ExpressionProgramData(s) => s.len() + 2,
                    _ => 2,
                };
                let mut n = 0usize;
                for item in nl {
                    n += 1;
                    if n > cap {
                        *runaway = true;
                        break;
                    }
                    match item {
                        Ok(numeric_list::Token::Numeric(a)) => {
                            mix!(1);
                            let _ = f64::try_from(a).map(|x| mix!(x.to_bits()));
                            let _ = i32::try_from(a).map(|x| mix!(x as i64 as u64));
                        }
                        Ok(numeric_list::Token::NumericRange(a, b)) => {
                            mix!(2);
                            let _ = f64::try_from(a).map(|x| mix!(x.to_bits()));
                            let _ = f64::try_from(b).map(|x| mix!(x.to_bits()));
                        }
                        Err(e) => {
                            if is_internal_error(&e) {
                                internal = true;
                            }
                            mix!(e.get_code() as i64 as u64);
                            break;
                        }
                    }
                }
            }
            Err(e) => {
                if is_internal_error(&e) {
                    internal = true;
                }
                mix!(e.get_code() as i64 as u64 ^ 0x77);
            }
        }
    }
    {
        let r: core::result::Result<ChannelList, Error> = ChannelList::try_from(t);
        match r {
            Ok(cl) => {
                oks += 1;
                let cap = match t {
                    Token::ExpressionProgramData(s) => s.len() + 2,
                    _ => 2,
                };
                let mut n = 0usize;
                for item in cl {
                    n += 1;
                    if n > cap {
                        *runaway = true;
                        break;
                    }
                    match item {
                        Ok(channel_list::Token::ChannelSpec(s)) => {
                            mix!(1);
                            h = walk_spec(s, cap, h, runaway);
                        }
                        Ok(channel_list::Token::ChannelRange(a, b)) => {
                            mix!(2);
                            h = walk_spec(a, cap, h, runaway);
                            h = walk_spec(b, cap, h, runaway);
                        }
                        Ok(channel_list::Token::PathName(p)) => {
                            mix!(crate::core::fnv(3, p));
                        }
                        Ok(channel_list::Token::ModuleChannel(a, b)) => {
                            mix!(crate::core::fnv(4, a));
                            mix!(crate::core::fnv(5, b));
                        }
                        Err(e) => {
                            mix!(e.get_code() as i64 as u64);
                            break;
                        }
                    }
                }
            }
            Err(e) => {
                if is_internal_error(&e) {
                    internal = true;
                }
                mix!(e.get_code() as i64 as u64 ^ 0x99);
            }
        }
    }
    (oks, internal, h)
}

/// Iterate a channel spec up to its first error and run all six tuple conversions.
pub fn walk_spec(s: channel_list::ChannelSpec, cap: usize, mut h: u64, runaway: &mut bool) -> u64 {
    macro_rules! mix {
        ($v:expr) => {{
            h ^= $v as u64;
            h = h.wrapping_mul(0x100000001b3);
        }};
    }
    mix!(s.dimension());
    let mut n = 0usize;
    for d in s {
        n += 1;
        if n > cap {
            *runaway = true;
            break;
        }
        match d {
            Ok(v) => {
                mix!(v as i64 as u64);
            }
            Err(e) => {
                mix!(e.get_code() as i64 as u64);
                break;
            }
        }
    }
    match isize::try_from(s) {
        Ok(v) => {
            mix!(v as i64 as u64);
        }
        Err(e) => {
            mix!(e.get_code() as i64 as u64);
        }
    }
    match usize::try_from(s) {
        Ok(v) => {
            mix!(v as u64);
        }
        Err(e) => {
            mix!(e.get_code() as i64 as u64);
        }
    }
    match <(isize, isize)>::try_from(s) {
        Ok(v) => {
            mix!(v.0 as i64 as u64);
            mix!(v.1 as i64 as u64);
        }
        Err(e) => {
            mix!(e.get_code() as i64 as u64);
        }
    }
    match <(usize, usize)>::try_from(s) {
        Ok(v) => {
            mix!(v.0 as u64);
            mix!(v.1 as u64);
        }
        Err(e) => {
            mix!(e.get_code() as i64 as u64);
        }
    }
    match <(isize, isize, isize)>::try_from(s) {
        Ok(v) => {
            mix!(v.0 as i64 as u64);
            mix!(v.1 as i64 as u64);
            mix!(v.2 as i64 as u64);
        }
        Err(e) => {
            mix!(e.get_code() as i64 as u64);
        }
    }
    match <(usize, usize, usize)>::try_from(s) {
        Ok(v) => {
            mix!(v.0 as u64);
            mix!(v.1 as u64);
            mix!(v.2 as u64);
        }
        Err(e) => {
            mix!(e.get_code() as i64 as u64);
        }
    }
    h
}

// ---------------------------------------------------------------------------------------
// The scripted handler

pub struct H(pub u8);

impl H {
    fn pulls(&self, dev: &mut RigDev, params: &mut Parameters) -> Result<()> {
        let plan = dev.plan[self.0 as usize];
        let mut runaway = false;
        if plan.typed_u8 {
            for _ in 0..plan.req {
                let r: Result<u8> = params.next_data();
                let pull = match &r {
                    Ok(v) => Pull::Val(*v as i64),
                    Err(e) => Pull::Err(e.get_code()),
                };
                if dev.pulls.try_push(PullRec { handler: self.0, required: true, pull }).is_err() {
                    dev.log_overflow = true;
                }
                r?;
            }
            for _ in 0..plan.opt {
                let r: Result<Option<u8>> = params.next_optional_data();
                let pull = match &r {
                    Ok(Some(v)) => Pull::Val(*v as i64),
                    Ok(None) => Pull::Absent,
                    Err(e) => Pull::Err(e.get_code()),
                };
                if dev.pulls.try_push(PullRec { handler: self.0, required: false, pull }).is_err() {
                    dev.log_overflow = true;
                }
                if r?.is_none() {
                    break;
                }
            }
            return Ok(());
        }
        for _ in 0..plan.req {
            let r = params.next_token();
            let pull = match &r {
                Ok(t) => Pull::Tok(tokrec(dev.msg_base, dev.msg_len, t)),
                Err(e) => Pull::Err(e.get_code()),
            };
            if dev
                .pulls
                .try_push(PullRec {
                    handler: self.0,
                    required: true,
                    pull,
                })
                .is_err()
            {
                dev.log_overflow = true;
            }
            let t = r?;
            if plan.convert {
                let (_, internal, _) = convert_all(t, &mut runaway);
                dev.internal_error |= internal;
            }
        }
        for _ in 0..plan.opt {
            let r = params.next_optional_token();
            let pull = match &r {
                Ok(Some(t)) => Pull::Tok(tokrec(dev.msg_base, dev.msg_len, t)),
                Ok(None) => Pull::Absent,
                Err(e) => Pull::Err(e.get_code()),
            };
            if dev
                .pulls
                .try_push(PullRec {
                    handler: self.0,
                    required: false,
                    pull,
                })
                .is_err()
            {
                dev.log_overflow = true;
            }
            match r? {
                Some(t) => {
                    if plan.convert {
                        let (_, internal, _) = convert_all(t, &mut runaway);
                        dev.internal_error |= internal;
                    }
                }
                None => break,
            }
        }
        if runaway {
            // an iterator did not stop within len+2 steps: surfaced as an internal marker
            dev.internal_error = true;
        }
        Ok(())
    }
}

pub fn write_item(resp: &mut ResponseUnit, it: &Item) {
    match *it {
        Item::Header(h) => {
            resp.header(h);
        }
        Item::I64(v) => {
            resp.data(v);
        }
        Item::U8(v) => {
            resp.data(v);
        }
        Item::F32(v) => {
            resp.data(v);
        }
        Item::F64(v) => {
            resp.data(v);
        }
        Item::Bool(v) => {
            resp.data(v);
        }
        Item::Str(v) => {
            resp.data(v);
        }
        Item::Block(v) => {
            resp.data(Arbitrary(v));
        }
        Item::Chr(v) => {
            resp.data(Character(v));
        }
        Item::Expr(v) => {
            resp.data(Expression(v));
        }
        Item::Utf8(v) => {
            resp.data(v);
        }
        Item::Err(e) => {
            resp.data(e);
        }
        Item::ListAv(v) => {
            let mut l: arrayvec::ArrayVec<u8, 8> = arrayvec::ArrayVec::new();
            for x in v.iter().take(8) {
                l.push(*x);
            }
            resp.data(l);
        }
        Item::ListVec(v) => {
            resp.data(v.to_vec());
        }
    }
}

impl Command<RigDev> for H {
    fn event(&self, dev: &mut RigDev, _ctx: &mut Context, mut params: Parameters) -> Result<()> {
        if dev
            .calls
            .try_push(Call {
                handler: self.0,
                form: Form::Event,
            })
            .is_err()
        {
            dev.log_overflow = true;
        }
        self.pulls(dev, &mut params)?;
        let plan = dev.plan[self.0 as usize];
        if let Some(e) = plan.fail {
            return Err(e);
        }
        Ok(())
    }

    fn query(
        &self,
        dev: &mut RigDev,
        _ctx: &mut Context,
        mut params: Parameters,
        mut resp: ResponseUnit,
    ) -> Result<()> {
        if dev
            .calls
            .try_push(Call {
                handler: self.0,
                form: Form::Query,
            })
            .is_err()
        {
            dev.log_overflow = true;
        }
        self.pulls(dev, &mut params)?;
        let plan = dev.plan[self.0 as usize];
        for (i, it) in plan.resp.iter().enumerate() {
            if plan.fail.is_some() && i >= plan.fail_after_items {
                break;
            }
            write_item(&mut resp, it);
        }
        if let Some(e) = plan.fail {
            return Err(e);
        }
        if plan.propagate_finish {
            resp.finish()
        } else {
            let _ = resp.finish();
            Ok(())
        }
    }
}

macro_rules! handlers {
    ($($i:literal),*) => { pub static HANDLERS: [H; MAX_HANDLERS] = [$(H($i)),*]; };
}
handlers!(
    0, 1, 2, 3, 4, 5, 6, 7, 8, 9, 10, 11, 12, 13, 14, 15, 16, 17, 18, 19, 20, 21, 22, 23, 24, 25, 26, 27, 28, 29,
    30, 31, 32, 33, 34, 35, 36, 37, 38, 39, 40, 41, 42, 43, 44, 45, 46, 47
);

// ---------------------------------------------------------------------------------------
// Trees as data

#[derive(Clone, Debug, PartialEq, Eq, Hash)]
pub enum TreeSpec {
    Leaf {
        name: String,
        default: bool,
        handler: u8,
    },
    Branch {
        name: String,
        default: bool,
        sub: Vec<TreeSpec>,
    },
}

impl TreeSpec {
    pub fn leaf(name: &str, handler: u8) -> Self {
        TreeSpec::Leaf {
            name: name.into(),
            default: false,
            handler,
        }
    }
    pub fn dleaf(name: &str, handler: u8) -> Self {
        TreeSpec::Leaf {
            name: name.into(),
            default: true,
            handler,
        }
    }
    pub fn branch(name: &str, sub: Vec<TreeSpec>) -> Self {
        TreeSpec::Branch {
            name: name.into(),
            default: false,
            sub,
        }
    }
    pub fn dbranch(name: &str, sub: Vec<TreeSpec>) -> Self {
        TreeSpec::Branch {
            name: name.into(),
            default: true,
            sub,
        }
    }
    pub fn root(sub: Vec<TreeSpec>) -> Self {
        TreeSpec::Branch {
            name: String::new(),
            default: false,
            sub,
        }
    }
    pub fn name(&self) -> &str {
        match self {
            TreeSpec::Leaf { name, .. } | TreeSpec::Branch { name, .. } => name,
        }
    }
    pub fn is_default(&self) -> bool {
        match self {
            TreeSpec::Leaf { default, .. } | TreeSpec::Branch { default, .. } => *default,
        }
    }

    /// Leak into a `'static` node (trees live for the whole process).
    pub fn build(&self) -> &'static Node<'static, RigDev> {
        Box::leak(Box::new(self.build_node()))
    }

    /// Nodes are built with the library's own constructors (`Node::leaf`, `default_leaf`, `branch`,
    /// `default_branch`, `root`), so that these are what every tree-based check exercises.
    fn build_node(&self) -> Node<'static, RigDev> {
        match self {
            TreeSpec::Leaf {
                name,
                default,
                handler,
            } => {
                let n: &'static [u8] = Box::leak(name.clone().into_bytes().into_boxed_slice());
                if *default {
                    Node::default_leaf(n, &HANDLERS[*handler as usize])
                } else {
                    Node::leaf(n, &HANDLERS[*handler as usize])
                }
            }
            TreeSpec::Branch { name, default, sub } => {
                let subs: Vec<Node<'static, RigDev>> = sub.iter().map(|s| s.build_node()).collect();
                let n: &'static [u8] = Box::leak(name.clone().into_bytes().into_boxed_slice());
                let sub: &'static [Node<'static, RigDev>] = Box::leak(subs.into_boxed_slice());
                if *default {
                    Node::default_branch(n, sub)
                } else if n.is_empty() {
                    Node::root(sub)
                } else {
                    Node::branch(n, sub)
                }
            }
        }
    }

    pub fn to_json(&self) -> serde_json::Value {
        match self {
            TreeSpec::Leaf {
                name,
                default,
                handler,
            } => serde_json::json!({"leaf": name, "default": default, "handler": handler}),
            TreeSpec::Branch { name, default, sub } => {
                serde_json::json!({"branch": name, "default": default, "sub": sub.iter().map(|s| s.to_json()).collect::<Vec<_>>()})
            }
        }
    }

    pub fn from_json(v: &serde_json::Value) -> Option<TreeSpec> {
        if let Some(n) = v.get("leaf") {
            Some(TreeSpec::Leaf {
                name: n.as_str()?.to_string(),
                default: v.get("default")?.as_bool()?,
                handler: v.get("handler")?.as_u64()? as u8,
            })
        } else {
            let n = v.get("branch")?.as_str()?.to_string();
            let mut sub = vec![];
            for s in v.get("sub")?.as_array()? {
                sub.push(TreeSpec::from_json(s)?);
            }
            Some(TreeSpec::Branch {
                name: n,
                default: v.get("default")?.as_bool()?,
                sub,
            })
        }
    }

    /// Compact one-line rendering for samples, e.g. `{A=0,[B]{[C]=1}}`.
    pub fn render(&self) -> String {
        match self {
            TreeSpec::Leaf {
                name,
                default,
                handler,
            } => {
                if *default {
                    format!("[{}]={}", name, handler)
                } else {
                    format!("{}={}", name, handler)
                }
            }
            TreeSpec::Branch { name, default, sub } => {
                let inner: Vec<String> = sub.iter().map(|s| s.render()).collect();
                if *default {
                    format!("[{}]{{{}}}", name, inner.join(","))
                } else {
                    format!("{}{{{}}}", name, inner.join(","))
                }
            }
        }
    }
}

/// Run one message on a rig device with a `Vec<u8>` formatter.
pub fn run_vec(tree: &Node<'static, RigDev>, dev: &mut RigDev, msg: &[u8], out: &mut Vec<u8>) -> Result<()> {
    dev.reset_obs(msg);
    let mut ctx = Context::default();
    tree.run(msg, dev, &mut ctx, out)
}

pub fn err_code(e: ErrorCode) -> i16 {
    e.get_code()
}

/// A built tree that can be shared between sweep threads. Sound because every handler in a rig
/// tree is a stateless `H(id)` living in a `static`; all mutable state is in the per-thread `RigDev`.
#[derive(Clone, Copy)]
pub struct SharedTree(pub &'static Node<'static, RigDev>);
unsafe impl Sync for SharedTree {}
unsafe impl Send for SharedTree {}
impl SharedTree {
    pub fn of(spec: &TreeSpec) -> SharedTree {
        SharedTree(spec.build())
    }
    pub fn node(&self) -> &'static Node<'static, RigDev> {
        self.0
    }
}
