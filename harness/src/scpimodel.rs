//! Reference model of the IEEE 488.2 / SCPI-99 status machinery and error queue, written from
//! the standards (488.2 section 11, SCPI-99 sections 9, 20, 21.8) and the property statements,
//! plus the lock-step binding to the real device of `dev488`.
//!
//! The model is deliberately boring: plain integers and a Vec. A *message* of the alphabet is a
//! list of units; each unit binds the text that is sent to the real parser to the semantic action
//! the standards assign to it. This binding table is the specification under which the real tree,
//! parser, handlers and device glue are exercised.

use crate::core::esc;
use crate::dev488::*;
use crate::lockstep::*;
use scpi::error::{Error, ErrorCode};
use scpi_contrib::scpi1999::prelude::*;
use serde_json::{json, Value};

// ---------------------------------------------------------------------------------------
// Independent ESR class table (IEEE 488.2 11.5.1 / SCPI-99 21.8.2); also the oracle of C14.

pub fn esr_bit_of(code: i16) -> u8 {
    let c = code as i32;
    if c > 0 {
        return 0x08; // positive: device-specific
    }
    let century = (-c) / 100; // 0 for 0..-99, 1 for -100..-199, ...
    match century {
        0 => 0x00,
        1 => 0x20, // command error
        2 => 0x10, // execution error
        3 => 0x08, // device-specific
        4 => 0x04, // query error
        5 => 0x80, // power on
        6 => 0x40, // user request
        7 => 0x02, // request control
        8 => 0x01, // operation complete
        _ => 0x08, // unclassified: device-specific
    }
}

// ---------------------------------------------------------------------------------------
// Reference state

#[derive(Clone, Debug, PartialEq, Eq, Hash)]
pub struct RefErr {
    pub code: i16,
    pub msg: Vec<u8>,
    pub ext: Option<Vec<u8>>,
    /// how much of this error the properties pin
    pub pin: Pin,
}

/// What the properties fix about the error a failing unit raises.
#[derive(Clone, Copy, Debug, PartialEq, Eq, Hash)]
pub enum Pin {
    /// raised by a rig handler: number and extended text are known exactly
    Exact,
    /// raised by the library with a number the properties name (-113, -108, -109, -222): the
    /// number is pinned, message / extended text of the actual error are adopted by the model
    Code,
    /// raised by the library for a syntax / data-type fault: only the IEEE 488.2 class is pinned;
    /// the actual error of that class is adopted by the model
    Class,
}

impl RefErr {
    pub fn of(e: &Error) -> RefErr {
        RefErr {
            code: e.get_code(),
            msg: e.get_message().to_vec(),
            ext: e.get_extended().map(|x| x.to_vec()),
            pin: Pin::Exact,
        }
    }
    pub fn any_of_class(mut self) -> RefErr {
        self.pin = Pin::Class;
        self
    }
    /// library-raised error with a number named by the properties
    pub fn lib(code: i16) -> RefErr {
        let mut e = RefErr::std(code);
        e.pin = Pin::Code;
        e
    }
    /// Standard error by number; the message text is the library's table (C14 checks the table).
    pub fn std(code: i16) -> RefErr {
        match ErrorCode::get_error(code) {
            Some(e) => RefErr {
                code,
                msg: e.get_message().to_vec(),
                ext: None,
                pin: Pin::Exact,
            },
            None => RefErr {
                code,
                msg: b"Custom error".to_vec(),
                ext: None,
                pin: Pin::Exact,
            },
        }
    }
    pub fn with_ext(mut self, x: &[u8]) -> RefErr {
        self.ext = Some(x.to_vec());
        self
    }
    /// SCPI-99 21.8: `<code>,"<description>[;<device-dependent info>]"`
    pub fn render(&self) -> Vec<u8> {
        let mut v = format!("{}", self.code).into_bytes();
        v.extend_from_slice(b",\"");
        v.extend_from_slice(&self.msg);
        if let Some(x) = &self.ext {
            v.push(b';');
            v.extend_from_slice(x);
        }
        v.push(b'"');
        v
    }
    pub fn show(&self) -> String {
        esc(&self.render())
    }
}

#[derive(Clone, Copy, Debug, PartialEq, Eq, Hash)]
pub struct RefReg {
    pub cond: u16,
    pub event: u16,
    pub enable: u16,
    pub ptr: u16,
    pub ntr: u16,
}

impl RefReg {
    pub fn new() -> Self {
        RefReg {
            cond: 0,
            event: 0,
            enable: 0,
            ptr: 0xffff,
            ntr: 0,
        }
    }
    /// SCPI-99 9: the event register latches condition transitions selected by the filters.
    pub fn set_condition(&mut self, new: u16) {
        let rise = !self.cond & new;
        let fall = self.cond & !new;
        self.event |= (rise & self.ptr) | (fall & self.ntr);
        self.cond = new;
    }
    /// Summary message: any enabled event bit (IEEE 488.2 11.4.3), bit 15 never used.
    pub fn summary(&self) -> bool {
        self.event & self.enable & 0x7fff != 0
    }
    pub fn of(r: &EventRegister) -> RefReg {
        // the condition register is observed through the device-side getter, bit by bit (it must agree
        // with what CONDition? reports, which the lock-step comparison of responses pins)
        let cond: u16 = (0..16).map(|b| (r.get_condition_bit(1u16 << b) as u16) << b).sum();
        RefReg {
            cond,
            event: r.event,
            enable: r.enable,
            ptr: r.ptr_filter,
            ntr: r.ntr_filter,
        }
    }
    /// comparison ignores bit 15 (the property only constrains what is reported)
    pub fn same_mod15(&self, o: &RefReg) -> bool {
        let m = 0x7fff;
        self.cond & m == o.cond & m
            && self.event & m == o.event & m
            && self.enable & m == o.enable & m
            && self.ptr & m == o.ptr & m
            && self.ntr & m == o.ntr & m
    }
}

#[derive(Clone, Debug, PartialEq, Eq, Hash)]
pub struct RefDev {
    pub queue: Vec<RefErr>,
    pub cap: Option<usize>,
    pub esr: u8,
    pub ese: u8,
    pub sre: u8,
    pub oper: RefReg,
    pub ques: RefReg,
    pub tst_fail: Option<i16>,
}

impl RefDev {
    pub fn new(cap: Option<usize>) -> Self {
        RefDev {
            queue: vec![],
            cap,
            esr: 0,
            ese: 0,
            sre: 0,
            oper: RefReg::new(),
            ques: RefReg::new(),
            tst_fail: None,
        }
    }
    pub fn push(&mut self, e: RefErr) {
        match self.cap {
            Some(n) if self.queue.len() >= n => {
                if let Some(l) = self.queue.last_mut() {
                    *l = RefErr::std(-350);
                }
            }
            _ => self.queue.push(e),
        }
    }
    /// A failed message: queued once, class bit set (property C13).
    pub fn fail(&mut self, e: RefErr) {
        self.esr |= esr_bit_of(e.code);
        self.push(e);
    }
    /// IEEE 488.2 11.2 status byte with the SCPI-99 bit assignment.
    pub fn stb(&self, mav: bool) -> u8 {
        let mut stb = 0u8;
        if !self.queue.is_empty() {
            stb |= 0x04;
        }
        if self.ques.summary() {
            stb |= 0x08;
        }
        if mav {
            stb |= 0x10;
        }
        if self.esr & self.ese != 0 {
            stb |= 0x20;
        }
        if self.oper.summary() {
            stb |= 0x80;
        }
        if stb & self.sre & !0x40 != 0 {
            stb |= 0x40;
        }
        stb
    }
    pub fn reg(&mut self, w: Which) -> &mut RefReg {
        match w {
            Which::Oper => &mut self.oper,
            Which::Ques => &mut self.ques,
        }
    }
}

#[derive(Clone, Copy, Debug, PartialEq, Eq, Hash)]
pub enum Which {
    Oper,
    Ques,
}
#[derive(Clone, Copy, Debug, PartialEq, Eq, Hash)]
pub enum Field {
    Event,
    Cond,
    Enable,
    Ptr,
    Ntr,
}

/// Semantic action a unit denotes.
#[derive(Clone, Debug, PartialEq)]
pub enum U {
    /// valid command without effect on status
    Nop,
    /// valid query with a fixed answer
    Query(&'static [u8]),
    /// the unit fails with this error (syntax/dispatch/conversion/handler-raised)
    Fail(RefErr),
    Opc,
    OpcQ,
    ErrNext,
    ErrCount,
    ErrAll,
    Esr,
    EseSet(u8),
    EseQ,
    SreSet(u8),
    SreQ,
    Stb,
    Cls,
    Tst,
    Rst,
    Wai,
    RegSet(Which, Field, u16),
    RegQ(Which, Field),
    Preset,
}

#[derive(Clone, Debug, PartialEq)]
pub struct Unit {
    pub text: Vec<u8>,
    pub sem: U,
}

pub fn unit(text: &str, sem: U) -> Unit {
    Unit {
        text: text.as_bytes().to_vec(),
        sem,
    }
}

#[derive(Clone, Debug, PartialEq)]
pub enum Act {
    /// a program message: units joined by `;`, message-available flag of the context
    Msg { units: Vec<Unit>, mav: bool },
    /// device-side condition change through the real `set_condition`
    SetCond(Which, u16),
    SetBits(Which, u16),
    ClearBits(Which, u16),
    /// device self-test result from now on
    SetTst(Option<i16>),
}

pub fn msg(units: Vec<Unit>) -> Act {
    Act::Msg { units, mav: false }
}
pub fn msg1(text: &str, sem: U) -> Act {
    Act::Msg {
        units: vec![unit(text, sem)],
        mav: false,
    }
}

impl Act {
    pub fn text(&self) -> Vec<u8> {
        match self {
            Act::Msg { units, .. } => {
                let mut v = vec![];
                for (i, u) in units.iter().enumerate() {
                    if i > 0 {
                        v.push(b';');
                    }
                    v.extend_from_slice(&u.text);
                }
                v
            }
            _ => vec![],
        }
    }
    pub fn render(&self) -> String {
        match self {
            Act::Msg { mav, .. } => {
                if *mav {
                    format!("[mav] {}", esc(&self.text()))
                } else {
                    esc(&self.text())
                }
            }
            Act::SetCond(w, v) => format!("{:?}.set_condition({:#06x})", w, v),
            Act::SetBits(w, v) => format!("{:?}.set_condition_bits({:#06x})", w, v),
            Act::ClearBits(w, v) => format!("{:?}.clear_condition_bits({:#06x})", w, v),
            Act::SetTst(v) => format!("device self-test := {:?}", v),
        }
    }
}

/// Outcome of a message according to the model.
#[derive(Clone, Debug, PartialEq)]
pub struct RefOutcome {
    pub result: Result<(), RefErr>,
    /// expected response bytes (only meaningful when result is Ok)
    pub response: Vec<u8>,
}

impl RefDev {
    /// Execute one message on the model: units left to right, stop at the first failure, which is
    /// queued once and flagged in ESR. Response framing per IEEE 488.2 8.4: units joined by `;`,
    /// one NL at the end iff there is any output.
    pub fn exec(&mut self, units: &[Unit], mav: bool) -> RefOutcome {
        let mut parts: Vec<Vec<u8>> = vec![];
        for u in units {
            let r: Result<Option<Vec<u8>>, RefErr> = match &u.sem {
                U::Nop | U::Rst | U::Wai => Ok(None),
                U::Query(t) => Ok(Some(t.to_vec())),
                U::Fail(e) => Err(e.clone()),
                U::Opc => {
                    // property C13: *OPC records its operation-complete event
                    self.esr |= 0x01;
                    self.push(RefErr::std(-800));
                    Ok(None)
                }
                U::OpcQ => Ok(Some(b"1".to_vec())),
                U::ErrNext => {
                    if self.queue.is_empty() {
                        Ok(Some(b"0,\"No error\"".to_vec()))
                    } else {
                        Ok(Some(self.queue.remove(0).render()))
                    }
                }
                U::ErrCount => Ok(Some(format!("{}", self.queue.len()).into_bytes())),
                U::ErrAll => {
                    if self.queue.is_empty() {
                        Ok(Some(b"0,\"No error\"".to_vec()))
                    } else {
                        let mut v = vec![];
                        for (i, e) in self.queue.drain(..).enumerate() {
                            if i > 0 {
                                v.push(b',');
                            }
                            v.extend_from_slice(&e.render());
                        }
                        Ok(Some(v))
                    }
                }
                U::Esr => {
                    let v = self.esr;
                    self.esr = 0;
                    Ok(Some(format!("{v}").into_bytes()))
                }
                U::EseSet(v) => {
                    self.ese = *v;
                    Ok(None)
                }
                U::EseQ => Ok(Some(format!("{}", self.ese).into_bytes())),
                U::SreSet(v) => {
                    self.sre = *v;
                    Ok(None)
                }
                U::SreQ => Ok(Some(format!("{}", self.sre).into_bytes())),
                U::Stb => Ok(Some(format!("{}", self.stb(mav)).into_bytes())),
                U::Cls => {
                    // 488.2 10.3 + SCPI-99 4.1.3.2: event registers and the error queue, no enable register
                    self.esr = 0;
                    self.oper.event = 0;
                    self.ques.event = 0;
                    self.queue.clear();
                    Ok(None)
                }
                U::Tst => Ok(Some(match self.tst_fail {
                    None => b"0".to_vec(),
                    Some(c) => format!("{c}").into_bytes(),
                })),
                U::RegSet(w, f, v) => {
                    let r = self.reg(*w);
                    match f {
                        Field::Enable => r.enable = *v,
                        Field::Ptr => r.ptr = *v,
                        Field::Ntr => r.ntr = *v,
                        _ => unreachable!(),
                    }
                    Ok(None)
                }
                U::RegQ(w, f) => {
                    let r = self.reg(*w);
                    let v = match f {
                        Field::Event => {
                            let v = r.event;
                            r.event = 0;
                            v
                        }
                        Field::Cond => r.cond,
                        Field::Enable => r.enable,
                        Field::Ptr => r.ptr,
                        Field::Ntr => r.ntr,
                    };
                    Ok(Some(format!("{}", v & 0x7fff).into_bytes()))
                }
                U::Preset => {
                    // SCPI-99 20.2: enable 0, PTR all ones, NTR 0; condition/event untouched
                    for w in [Which::Oper, Which::Ques] {
                        let r = self.reg(w);
                        r.enable = 0;
                        r.ptr = 0xffff;
                        r.ntr = 0;
                    }
                    Ok(None)
                }
            };
            match r {
                Ok(Some(p)) => parts.push(p),
                Ok(None) => {}
                Err(e) => {
                    self.fail(e.clone());
                    return RefOutcome {
                        result: Err(e),
                        response: vec![],
                    };
                }
            }
        }
        let mut response = vec![];
        for (i, p) in parts.iter().enumerate() {
            if i > 0 {
                response.push(b';');
            }
            response.extend_from_slice(p);
        }
        if !parts.is_empty() {
            response.push(b'\n');
        }
        RefOutcome {
            result: Ok(()),
            response,
        }
    }

    pub fn apply(&mut self, a: &Act) -> Option<RefOutcome> {
        match a {
            Act::Msg { units, mav } => Some(self.exec(units, *mav)),
            Act::SetCond(w, v) => {
                self.reg(*w).set_condition(*v);
                None
            }
            Act::SetBits(w, v) => {
                let r = self.reg(*w);
                let n = r.cond | *v;
                r.set_condition(n);
                None
            }
            Act::ClearBits(w, v) => {
                let r = self.reg(*w);
                let n = r.cond & !*v;
                r.set_condition(n);
                None
            }
            Act::SetTst(v) => {
                self.tst_fail = *v;
                None
            }
        }
    }
}

// ---------------------------------------------------------------------------------------
// Lock-step binding

/// Which parts of the state a slice compares after every step (all of them by default).
pub struct DevModel<Q: HasTree> {
    pub name: String,
    pub alphabet: Vec<Act>,
    /// exploration bound on the queue length (pushing actions are disabled at the bound)
    pub max_queue: usize,
    pub _q: std::marker::PhantomData<Q>,
}

pub fn abstraction<Q: HasTree>(d: &ScpiDev<Q>) -> RefDev {
    RefDev {
        queue: d.queue_copy().iter().map(RefErr::of).collect(),
        cap: Q::capacity(),
        esr: d.esr,
        ese: d.ese,
        sre: d.sre,
        oper: RefReg::of(&d.operation),
        ques: RefReg::of(&d.questionable),
        tst_fail: d.tst_result.map(|e| e.get_code()),
    }
}

/// Classification key of a mismatch: which observation differs, on which command (first word).
fn key_of(kind: &str, a: &Act) -> String {
    let t = a.text();
    let cmd: String = match a {
        Act::Msg { units, .. } => {
            // the last unit is usually the observing one
            let last = units.last().map(|u| u.text.clone()).unwrap_or_default();
            let w: Vec<u8> = last
                .iter()
                .cloned()
                .take_while(|c| !c.is_ascii_whitespace())
                .collect();
            String::from_utf8_lossy(&w).to_uppercase()
        }
        Act::SetCond(..) | Act::SetBits(..) | Act::ClearBits(..) => "set_condition".into(),
        Act::SetTst(_) => "set_tst".into(),
    };
    let _ = t;
    format!("{kind}@{cmd}")
}

impl<Q: HasTree> DevModel<Q> {
    pub fn new(name: &str, alphabet: Vec<Act>, max_queue: usize) -> Self {
        DevModel {
            name: name.into(),
            alphabet,
            max_queue,
            _q: std::marker::PhantomData,
        }
    }

    fn pushes(&self, a: &Act) -> bool {
        match a {
            Act::Msg { units, .. } => units.iter().any(|u| matches!(u.sem, U::Fail(_) | U::Opc)),
            _ => false,
        }
    }
}

impl<Q: HasTree> Lockstep for DevModel<Q> {
    type Sys = ScpiDev<Q>;
    type Ref = RefDev;
    fn name(&self) -> String {
        self.name.clone()
    }
    fn init(&self) -> (ScpiDev<Q>, RefDev) {
        (ScpiDev::new(), RefDev::new(Q::capacity()))
    }
    fn n_actions(&self) -> usize {
        self.alphabet.len()
    }
    fn render(&self, a: usize) -> String {
        self.alphabet[a].render()
    }
    fn enabled(&self, _s: &ScpiDev<Q>, r: &RefDev, a: usize) -> bool {
        if Q::capacity().is_none() && self.pushes(&self.alphabet[a]) {
            r.queue.len() < self.max_queue
        } else {
            true
        }
    }
    fn step(&self, sys: &mut ScpiDev<Q>, r: &mut RefDev, a: usize) -> Result<(), Mismatch> {
        let act = &self.alphabet[a];
        let mm = |kind: &str, what: String| Mismatch {
            key: key_of(kind, act),
            what,
        };
        // run the implementation first: where the properties pin only the class of a library-raised
        // error, the model adopts the actual error of that class
        let mut impl_run: Option<(scpi::error::Result<()>, Vec<u8>)> = None;
        let adjusted: Act;
        let act_for_model: &Act = match act {
            Act::Msg { units, mav } => {
                let text = act.text();
                let (res, out) = run_msg(sys, &text, *mav);
                let mut units2 = units.clone();
                if let Err(e) = &res {
                    if let Some(u) = units2.iter_mut().find(|u| matches!(u.sem, U::Fail(_))) {
                        if let U::Fail(want) = &u.sem {
                            let adopt = match want.pin {
                                Pin::Exact => false,
                                Pin::Code => want.code == e.get_code(),
                                Pin::Class => esr_bit_of(want.code) == esr_bit_of(e.get_code()),
                            };
                            if adopt {
                                u.sem = U::Fail(RefErr::of(e));
                            }
                        }
                    }
                }
                impl_run = Some((res, out));
                adjusted = Act::Msg { units: units2, mav: *mav };
                &adjusted
            }
            other => other,
        };
        let exp = r.apply(act_for_model);
        match act {
            Act::Msg { .. } => {
                let text = act.text();
                let (res, out) = impl_run.take().unwrap();
                let exp = exp.unwrap();
                match (&res, &exp.result) {
                    (Ok(()), Ok(())) => {
                        if out != exp.response {
                            return Err(mm(
                                "response",
                                format!("`{}` answered `{}`, model says `{}`", esc(&text), esc(&out), esc(&exp.response)),
                            ));
                        }
                    }
                    (Err(e), Err(x)) => {
                        let got = RefErr::of(e);
                        if got.code != x.code || got.ext != x.ext {
                            return Err(mm(
                                "error",
                                format!("`{}` failed with {}, model says {}", esc(&text), got.show(), x.show()),
                            ));
                        }
                    }
                    (Ok(()), Err(x)) => {
                        return Err(mm(
                            "accepted",
                            format!("`{}` succeeded (response `{}`), model says it fails with {}", esc(&text), esc(&out), x.show()),
                        ))
                    }
                    (Err(e), Ok(())) => {
                        return Err(mm(
                            "rejected",
                            format!("`{}` failed with {}, model says it succeeds", esc(&text), RefErr::of(e).show()),
                        ))
                    }
                }
            }
            Act::SetCond(w, v) => match w {
                Which::Oper => sys.get_register_mut::<Operation>().set_condition(*v),
                Which::Ques => sys.get_register_mut::<Questionable>().set_condition(*v),
            },
            Act::SetBits(w, v) => match w {
                Which::Oper => sys.get_register_mut::<Operation>().set_condition_bits(*v),
                Which::Ques => sys.get_register_mut::<Questionable>().set_condition_bits(*v),
            },
            Act::ClearBits(w, v) => match w {
                Which::Oper => sys.get_register_mut::<Operation>().clear_condition_bits(*v),
                Which::Ques => sys.get_register_mut::<Questionable>().clear_condition_bits(*v),
            },
            Act::SetTst(v) => {
                sys.tst_result = v.map(|c| match ErrorCode::get_error(c) {
                    Some(e) => Error::new(e),
                    None => Error::custom(c, b"Self test failed"),
                });
            }
        }
        // device state after the step
        let got = abstraction(sys);
        if got.queue.len() != r.queue.len()
            || got
                .queue
                .iter()
                .zip(r.queue.iter())
                .any(|(a, b)| a.code != b.code || a.ext != b.ext)
        {
            return Err(mm(
                "queue",
                format!(
                    "after `{}` the error queue holds {:?}, model says {:?}",
                    act.render(),
                    got.queue.iter().map(|e| e.show()).collect::<Vec<_>>(),
                    r.queue.iter().map(|e| e.show()).collect::<Vec<_>>()
                ),
            ));
        }
        if sys.num_errors_pub() != r.queue.len() {
            return Err(mm("queue-length", format!("num_errors()={} model {}", sys.num_errors_pub(), r.queue.len())));
        }
        if got.esr != r.esr {
            return Err(mm("esr", format!("after `{}` ESR={} model says {}", act.render(), got.esr, r.esr)));
        }
        if got.ese != r.ese {
            return Err(mm("ese", format!("after `{}` ESE={} model says {}", act.render(), got.ese, r.ese)));
        }
        if got.sre != r.sre {
            return Err(mm("sre", format!("after `{}` SRE={} model says {}", act.render(), got.sre, r.sre)));
        }
        if !got.oper.same_mod15(&r.oper) {
            return Err(mm("oper-register", format!("after `{}` OPERation registers {:?}, model says {:?}", act.render(), got.oper, r.oper)));
        }
        if !got.ques.same_mod15(&r.ques) {
            return Err(mm("ques-register", format!("after `{}` QUEStionable registers {:?}, model says {:?}", act.render(), got.ques, r.ques)));
        }
        Ok(())
    }
    fn resync(&self, sys: &ScpiDev<Q>) -> RefDev {
        abstraction(sys)
    }
    fn nontrivial(&self, before: &ScpiDev<Q>, after: &ScpiDev<Q>, _a: usize) -> bool {
        before != after
    }
}

impl<Q: Queue> ScpiDev<Q> {
    pub fn num_errors_pub(&self) -> usize {
        use scpi::error::ErrorQueue;
        self.num_errors()
    }
}

pub fn act_to_json(a: &Act) -> Value {
    json!(a.render())
}

// ---------------------------------------------------------------------------------------
// Slices: named (queue kind, alphabet, bound) configurations shared by C13 / C15 / C16

#[derive(Clone, Copy, Debug, PartialEq)]
pub enum QKind {
    Vec,
    A2,
    A3,
}

pub struct Slice {
    pub name: String,
    pub q: QKind,
    pub alphabet: Vec<Act>,
    pub max_queue: usize,
}

pub fn explore_slice(ctx: &'static crate::core::Ctx, s: Slice, tier: &str, samples: &mut crate::core::Samples) -> (String, ExploreStats, usize) {
    use arrayvec::ArrayVec;
    let cfg = json!({"slice": s.name, "tier": tier});
    let n = s.alphabet.len();
    let name = s.name.clone();
    let st = match s.q {
        QKind::Vec => explore(ctx, DevModel::<Vec<Error>>::new(&s.name, s.alphabet, s.max_queue), cfg, samples),
        QKind::A2 => explore(ctx, DevModel::<ArrayVec<Error, 2>>::new(&s.name, s.alphabet, s.max_queue), cfg, samples),
        QKind::A3 => explore(ctx, DevModel::<ArrayVec<Error, 3>>::new(&s.name, s.alphabet, s.max_queue), cfg, samples),
    };
    (name, st, n)
}

pub fn replay_slice(s: Slice, actions: &[usize]) -> Result<String, Mismatch> {
    use arrayvec::ArrayVec;
    match s.q {
        QKind::Vec => replay(&DevModel::<Vec<Error>>::new(&s.name, s.alphabet, s.max_queue), actions),
        QKind::A2 => replay(&DevModel::<ArrayVec<Error, 2>>::new(&s.name, s.alphabet, s.max_queue), actions),
        QKind::A3 => replay(&DevModel::<ArrayVec<Error, 3>>::new(&s.name, s.alphabet, s.max_queue), actions),
    }
}

/// Common driver: explore every slice, write model_checking evidence.
pub fn run_slices(
    ctx: &'static crate::core::Ctx,
    slices: Vec<Slice>,
    rule: &str,
    assumptions: Vec<String>,
    extra: Vec<(&str, Value)>,
) -> i32 {
    let mut total = ExploreStats::default();
    let mut samples = crate::core::Samples::new(10);
    let mut per = vec![];
    for s in slices {
        let t0 = std::time::Instant::now();
        let (name, st, n) = explore_slice(ctx, s, ctx.tier.name(), &mut samples);
        per.push(json!({"slice": name, "actions": n, "states": st.states, "transitions": st.transitions,
            "state_changing_transitions": st.nontrivial, "max_depth": st.max_depth, "known_resyncs": st.known_resyncs,
            "wall_s": t0.elapsed().as_secs_f64()}));
        total.add(&st);
    }
    let mut c = crate::core::cov();
    c.insert("states".into(), json!(total.states));
    c.insert("transitions".into(), json!(total.transitions));
    c.insert("traces_validated_against_impl".into(), json!(total.transitions));
    c.insert("evaluations".into(), json!(total.transitions));
    c.insert("distinct_nontrivial".into(), json!(total.nontrivial));
    c.insert("rule".into(), json!(rule));
    c.insert("max_depth".into(), json!(total.max_depth));
    c.insert("exhaustive".into(), json!(true));
    c.insert("per_slice".into(), Value::Array(per));
    for (k, v) in extra {
        c.insert(k.into(), v);
    }
    c.insert("samples".into(), Value::Array(samples.items));
    ctx.finish("model_checking", c, assumptions)
}

pub fn replay_with(slices: Vec<Slice>, case: &Value) -> Result<String, Mismatch> {
    let name = case["config"]["slice"].as_str().unwrap_or_else(|| crate::core::engine_failure("replay: no slice"));
    let actions: Vec<usize> = case["actions"]
        .as_array()
        .unwrap_or_else(|| crate::core::engine_failure("replay: no actions"))
        .iter()
        .map(|v| v.as_u64().unwrap() as usize)
        .collect();
    for s in slices {
        if s.name == name {
            return replay_slice(s, &actions);
        }
    }
    crate::core::engine_failure("replay: unknown slice")
}

pub fn tier_of(case: &Value) -> crate::core::Tier {
    match case["config"]["tier"].as_str() {
        Some("thorough") => crate::core::Tier::Thorough,
        _ => crate::core::Tier::Quick,
    }
}

/// Deterministic *deep* trace: replays a long action sequence in lock-step (no branching). Used for
/// histories far beyond the BFS bounds (hundreds of queued errors, counters crossing 256).
/// Returns the number of steps executed; reports the first mismatch as a violation.
pub fn deep_trace<Q: HasTree>(ctx: &crate::core::Ctx, name: &str, alphabet: Vec<Act>, script: &[usize]) -> u64 {
    let m = DevModel::<Q>::new(name, alphabet, usize::MAX);
    let (mut sys, mut rf) = m.init();
    for (i, &a) in script.iter().enumerate() {
        let r = crate::core::guarded(|| m.step(&mut sys, &mut rf, a));
        let mm = match r {
            Ok(Ok(())) => continue,
            Ok(Err(mm)) => mm,
            Err(p) => Mismatch { key: "panic".into(), what: format!("panic: {p}") },
        };
        ctx.violation(
            1_000_000 + i as u64,
            &format!("deep-{}", mm.key),
            &format!("[{name}] at step {i} of a {}-step history (`{}`): {}", script.len(), m.render(a), mm.what),
            json!({"kind": "deep-trace", "name": name, "upto": i + 1}),
        );
        return i as u64 + 1;
    }
    script.len() as u64
}
