//! A SCPI device wired exactly as documented in `scpi-contrib/examples/minimal_scpi.rs`
//! (handle_error -> push_error, stb -> scpi_stb, cls -> scpi_cls, opc -> scpi_opc), with the
//! library's own error-queue implementations as queue, the full mandated command tree, and a
//! few rig commands that let a message raise a chosen error or carry typed parameters.

use arrayvec::ArrayVec;
use scpi::error::{Error, ErrorCode, ErrorQueue, Result};
use scpi::tree::prelude::*;
use scpi::{cmd_both, cmd_nquery, cmd_qonly};
use scpi_contrib::ieee488::prelude::*;
use scpi_contrib::scpi1999::prelude::*;
use scpi_contrib::{
    ieee488_cls, ieee488_ese, ieee488_esr, ieee488_idn, ieee488_opc, ieee488_rst, ieee488_sre, ieee488_stb,
    ieee488_tst, ieee488_wai, scpi_status, scpi_system,
};
use std::hash::{Hash, Hasher};

pub trait Queue: ErrorQueue + Clone + std::fmt::Debug + PartialEq + Send + Sync + 'static {
    fn new_queue() -> Self;
    fn slots(&self) -> &[Error];
    fn capacity() -> Option<usize>;
}
impl Queue for Vec<Error> {
    fn new_queue() -> Self {
        Vec::new()
    }
    fn slots(&self) -> &[Error] {
        self.as_slice()
    }
    fn capacity() -> Option<usize> {
        None
    }
}
impl<const N: usize> Queue for ArrayVec<Error, N> {
    fn new_queue() -> Self {
        ArrayVec::new()
    }
    fn slots(&self) -> &[Error] {
        self.as_slice()
    }
    fn capacity() -> Option<usize> {
        Some(N)
    }
}

#[derive(Clone, Debug, PartialEq)]
pub struct ScpiDev<Q: Queue> {
    pub esr: u8,
    pub ese: u8,
    pub sre: u8,
    pub operation: EventRegister,
    pub questionable: EventRegister,
    pub errors: Q,
    /// what the device's self test reports
    pub tst_result: Option<Error>,
    /// counts calls of rst() (to show *RST reached the device)
    pub rst_calls: u8,
}

fn hash_reg<H: Hasher>(r: &EventRegister, h: &mut H) {
    r.condition.hash(h);
    r.event.hash(h);
    r.enable.hash(h);
    r.ntr_filter.hash(h);
    r.ptr_filter.hash(h);
}

impl<Q: Queue> Hash for ScpiDev<Q> {
    fn hash<H: Hasher>(&self, h: &mut H) {
        self.esr.hash(h);
        self.ese.hash(h);
        self.sre.hash(h);
        hash_reg(&self.operation, h);
        hash_reg(&self.questionable, h);
        for e in self.errors.slots() {
            crate::props::c12::hash_error(e, h);
        }
        self.errors.slots().len().hash(h);
        self.tst_result.map(|e| e.get_code()).hash(h);
    }
}

impl<Q: Queue> ScpiDev<Q> {
    pub fn new() -> Self {
        ScpiDev {
            esr: 0,
            ese: 0,
            sre: 0,
            operation: EventRegister::default(),
            questionable: EventRegister::default(),
            errors: Q::new_queue(),
            tst_result: None,
            rst_calls: 0,
        }
    }
    /// Content of the queue observed through the public API (clone + pop until empty).
    pub fn queue_copy(&self) -> Vec<Error> {
        let mut c = self.errors.clone();
        let mut v = vec![];
        let cap = c.num_errors() + 4;
        while let Some(e) = c.pop_front_error() {
            v.push(e);
            if v.len() > cap {
                break;
            }
        }
        v
    }
}

impl<Q: Queue> Device for ScpiDev<Q> {
    fn handle_error(&mut self, err: Error) {
        self.push_error(err)
    }
}

impl<Q: Queue> IEEE4882 for ScpiDev<Q> {
    fn stb(&self) -> u8 {
        self.scpi_stb()
    }
    fn sre(&self) -> u8 {
        self.sre
    }
    fn set_sre(&mut self, value: u8) {
        self.sre = value
    }
    fn esr(&self) -> u8 {
        self.esr
    }
    fn set_esr(&mut self, value: u8) {
        self.esr = value
    }
    fn ese(&self) -> u8 {
        self.ese
    }
    fn set_ese(&mut self, value: u8) {
        self.ese = value
    }
    fn tst(&mut self) -> Result<()> {
        match self.tst_result {
            None => Ok(()),
            Some(e) => Err(e),
        }
    }
    fn rst(&mut self) -> Result<()> {
        self.rst_calls = self.rst_calls.wrapping_add(1);
        Ok(())
    }
    fn cls(&mut self) -> Result<()> {
        self.scpi_cls()
    }
    fn opc(&mut self) -> Result<()> {
        self.scpi_opc()
    }
}

impl<Q: Queue> GetEventRegister<Operation> for ScpiDev<Q> {
    fn register(&self) -> &EventRegister {
        &self.operation
    }
    fn register_mut(&mut self) -> &mut EventRegister {
        &mut self.operation
    }
}
impl<Q: Queue> GetEventRegister<Questionable> for ScpiDev<Q> {
    fn register(&self) -> &EventRegister {
        &self.questionable
    }
    fn register_mut(&mut self) -> &mut EventRegister {
        &mut self.questionable
    }
}

impl<Q: Queue> ErrorQueue for ScpiDev<Q> {
    fn push_back_error(&mut self, err: Error) {
        self.errors.push_back_error(err)
    }
    fn pop_front_error(&mut self) -> Option<Error> {
        self.errors.pop_front_error()
    }
    fn num_errors(&self) -> usize {
        self.errors.num_errors()
    }
    fn clear_errors(&mut self) {
        self.errors.clear_errors()
    }
}

impl<Q: Queue> ScpiDevice for ScpiDev<Q> {}

// ---------------------------------------------------------------------------------------
// Rig commands

/// `RAISE <code>`: the handler *returns* the error with that number (standard variant if defined,
/// custom otherwise). `RAISE? <code>` the same from a query after writing partial output.
pub struct RaiseCommand;
fn make_error(code: i16) -> Error {
    match ErrorCode::get_error(code) {
        Some(e) => Error::new(e),
        None => Error::custom(code, b"Custom error"),
    }
}
impl<D: Device> Command<D> for RaiseCommand {
    cmd_both!();
    fn event(&self, _d: &mut D, _c: &mut Context, mut p: Parameters) -> Result<()> {
        let code: i16 = p.next_data()?;
        Err(make_error(code))
    }
    fn query(&self, _d: &mut D, _c: &mut Context, mut p: Parameters, mut r: ResponseUnit) -> Result<()> {
        let code: i16 = p.next_data()?;
        r.data(1u8);
        Err(make_error(code))
    }
}

/// `RAISEX`: returns -300 with extended text.
pub struct RaiseExtCommand;
impl<D: Device> Command<D> for RaiseExtCommand {
    cmd_nquery!();
    fn event(&self, _d: &mut D, _c: &mut Context, _p: Parameters) -> Result<()> {
        Err(Error::new(ErrorCode::DeviceSpecificError).extended(b"ext"))
    }
}

/// `EVT [<any>]`: valid event with one optional parameter of any type.
pub struct EvtCommand;
impl<D: Device> Command<D> for EvtCommand {
    cmd_nquery!();
    fn event(&self, _d: &mut D, _c: &mut Context, mut p: Parameters) -> Result<()> {
        let _ = p.next_optional_token()?;
        Ok(())
    }
}

/// `VAL?`: valid query answering `42`.
pub struct ValCommand;
impl<D: Device> Command<D> for ValCommand {
    cmd_qonly!();
    fn query(&self, _d: &mut D, _c: &mut Context, _p: Parameters, mut r: ResponseUnit) -> Result<()> {
        r.data(42u8).finish()
    }
}

/// `U8 <u8>`: typed required parameter (arity/type/range/suffix errors).
pub struct U8Command;
impl<D: Device> Command<D> for U8Command {
    cmd_nquery!();
    fn event(&self, _d: &mut D, _c: &mut Context, mut p: Parameters) -> Result<()> {
        let _v: u8 = p.next_data()?;
        Ok(())
    }
}

macro_rules! full_tree {
    ($q:ty) => {
        Root![
            ieee488_cls!(),
            ieee488_ese!(),
            ieee488_esr!(),
            ieee488_idn!(b"GPA-Robotics", b"T800-101", b"0", b"0"),
            ieee488_opc!(),
            ieee488_rst!(),
            ieee488_sre!(),
            ieee488_stb!(),
            ieee488_tst!(),
            ieee488_wai!(),
            scpi_status!(),
            scpi_system!(),
            Leaf {
                name: b"RAISE",
                default: false,
                handler: &RaiseCommand
            },
            Leaf {
                name: b"RAISEX",
                default: false,
                handler: &RaiseExtCommand
            },
            Leaf {
                name: b"EVT",
                default: false,
                handler: &EvtCommand
            },
            Leaf {
                name: b"VAL",
                default: false,
                handler: &ValCommand
            },
            Leaf {
                name: b"U8",
                default: false,
                handler: &U8Command
            }
        ]
    };
}

use scpi::Root;

pub const TREE_VEC: Node<ScpiDev<Vec<Error>>> = full_tree!(Vec<Error>);
pub const TREE_A2: Node<ScpiDev<ArrayVec<Error, 2>>> = full_tree!(ArrayVec<Error, 2>);
pub const TREE_A3: Node<ScpiDev<ArrayVec<Error, 3>>> = full_tree!(ArrayVec<Error, 3>);

pub trait HasTree: Queue {
    fn tree() -> &'static Node<'static, ScpiDev<Self>>;
}
impl HasTree for Vec<Error> {
    fn tree() -> &'static Node<'static, ScpiDev<Self>> {
        &TREE_VEC
    }
}
impl HasTree for ArrayVec<Error, 2> {
    fn tree() -> &'static Node<'static, ScpiDev<Self>> {
        &TREE_A2
    }
}
impl HasTree for ArrayVec<Error, 3> {
    fn tree() -> &'static Node<'static, ScpiDev<Self>> {
        &TREE_A3
    }
}

/// Execute one message the documented way: fresh context (with the given MAV flag) and a fresh
/// empty response buffer.
pub fn run_msg<Q: HasTree>(dev: &mut ScpiDev<Q>, msg: &[u8], mav: bool) -> (Result<()>, Vec<u8>) {
    let mut ctx = Context::default();
    ctx.mav = mav;
    let mut out = Vec::new();
    let r = Q::tree().run(msg, dev, &mut ctx, &mut out);
    (r, out)
}
