//! Generates the enum-definition family for C20: every subset of size 1..3 of a mnemonic pool whose
//! members are pairwise non-matching, in two orders, compiled with the real `#[derive(ScpiEnum)]`.
use std::fmt::Write;

const POOL: &[&str] = &["ALPHa", "BETa", "ALPHa1", "ALPHa2", "BETa12", "L125", "L1", "AB", "ABC", "REAL", "MINimum", "D"];

fn split(def: &str) -> (String, String, String) {
    let nd = def.chars().rev().take_while(|c| c.is_ascii_digit()).count();
    let (alpha, suffix) = def.split_at(def.len() - nd);
    let short: String = alpha.chars().take_while(|c| c.is_ascii_uppercase()).collect();
    (short, alpha.to_string(), suffix.to_string())
}

fn conflict(a: &str, b: &str) -> bool {
    let (sa, la, xa) = split(a);
    let (sb, lb, xb) = split(b);
    let xa = if xa.is_empty() { "1".to_string() } else { xa };
    let xb = if xb.is_empty() { "1".to_string() } else { xb };
    if xa != xb {
        return false;
    }
    let fa = [sa.to_uppercase(), la.to_uppercase()];
    let fb = [sb.to_uppercase(), lb.to_uppercase()];
    fa.iter().any(|x| fb.contains(x))
}

fn main() {
    println!("cargo:rerun-if-changed=build.rs");
    let mut sets: Vec<Vec<usize>> = vec![];
    let n = POOL.len();
    for i in 0..n {
        sets.push(vec![i]);
    }
    for i in 0..n {
        for j in 0..n {
            if i != j && !conflict(POOL[i], POOL[j]) {
                sets.push(vec![i, j]);
            }
        }
    }
    for i in 0..n {
        for j in (i + 1)..n {
            for k in (j + 1)..n {
                if !conflict(POOL[i], POOL[j]) && !conflict(POOL[i], POOL[k]) && !conflict(POOL[j], POOL[k]) {
                    sets.push(vec![i, j, k]);
                    sets.push(vec![k, j, i]);
                    // rotate so that every member is first at least once in some enum
                    if (i + j + k) % 3 == 0 {
                        sets.push(vec![j, k, i]);
                    }
                }
            }
        }
    }
    let mut out = String::new();
    let mut reg = String::new();
    for (e, set) in sets.iter().enumerate() {
        // the second variant (if any) of every third enum carries a single field
        let field = |vi: usize| vi == 1 && e % 3 == 0;
        writeln!(out, "#[derive(Copy, Clone, PartialEq, Debug, scpi_derive::ScpiEnum)]\npub enum E{e} {{").unwrap();
        for (vi, &m) in set.iter().enumerate() {
            if field(vi) {
                writeln!(out, "    #[scpi(mnemonic = b\"{}\")]\n    V{vi}(u8),", POOL[m]).unwrap();
            } else {
                writeln!(out, "    #[scpi(mnemonic = b\"{}\")]\n    V{vi},", POOL[m]).unwrap();
            }
        }
        writeln!(out, "}}").unwrap();
        // index / variant helpers
        writeln!(out, "fn e{e}_index(v: &E{e}) -> usize {{ match v {{").unwrap();
        for vi in 0..set.len() {
            if field(vi) {
                writeln!(out, "    E{e}::V{vi}(..) => {vi},").unwrap();
            } else {
                writeln!(out, "    E{e}::V{vi} => {vi},").unwrap();
            }
        }
        writeln!(out, "}} }}").unwrap();
        writeln!(out, "fn e{e}_variant(i: usize) -> E{e} {{ match i {{").unwrap();
        for vi in 0..set.len() {
            if field(vi) {
                writeln!(out, "    {vi} => E{e}::V{vi}(7),").unwrap();
            } else {
                writeln!(out, "    {vi} => E{e}::V{vi},").unwrap();
            }
        }
        writeln!(out, "    _ => unreachable!(),\n}} }}").unwrap();
        let mn: Vec<String> = set.iter().map(|&m| format!("b\"{}\"", POOL[m])).collect();
        writeln!(
            reg,
            "    EnumDef {{ name: \"E{e}\", mnemonics: &[{}], from_mnemonic: |s| <E{e} as ScpiEnum>::from_mnemonic(s).map(|v| e{e}_index(&v)), try_from: |t| E{e}::try_from(t).map(|v| e{e}_index(&v)).map_err(|e| e.get_code()), mnemonic_of: |i| e{e}_variant(i).mnemonic(), short_form_of: |i| e{e}_variant(i).short_form(), format: |i| fmt(&e{e}_variant(i)).map(|b| b.to_vec()) }},",
            mn.join(", ")
        )
        .unwrap();
    }
    writeln!(out, "pub static ENUMS: &[EnumDef] = &[\n{reg}];").unwrap();
    let dir = std::env::var("OUT_DIR").unwrap();
    std::fs::write(format!("{dir}/enum_family.rs"), out).unwrap();
}
