#!/bin/bash
# Runs the repository's baseline suite and prints a one-line summary (pass/fail counts).
cd /repo && cargo test --workspace --no-fail-fast --offline 2>&1 | awk '
/^test result:/ {p+=$4; f+=$6}
/^error/ {e=1; print}
/FAILED|panicked/ {print}
END {printf "repo tests: %d passed, %d failed%s\n", p, f, e?" (BUILD ERROR)":""; exit (f>0||e)}'
