#!/bin/bash
# Evaluate one seeded change: tools/seed_eval.sh <seed dir> [tier] [check ids...]
#   applies <dir>/patch.diff to /repo, runs the repository's own suite (must still pass), runs the
#   given checks (default: all claimed) at the given tier (default quick), writes <dir>/result.json,
#   and always restores /repo afterwards. MERGE=1 merges into an existing result.json (for re-running
#   only the checks that changed).
set -u
dir="$(realpath "$1")"; tier="${2:-quick}"; shift; shift 2>/dev/null
cd /verif
if [ -n "$(git -C /repo status --porcelain --untracked-files=no)" ]; then echo "/repo is not clean"; exit 2; fi
git -C /repo apply "$dir/patch.diff" || { echo "patch does not apply"; exit 2; }
trap 'git -C /repo checkout -- . ; git -C /repo clean -fdq -- scpi/tests scpi-contrib/tests 2>/dev/null' EXIT
if [ "${SKIP_SUITE:-0}" = 1 ]; then suite="(not re-run here; seed_intake.sh ran it with the change: see meta.json)"; else suite=$(tools/repo_test.sh 2>&1 | tail -1); fi
ids="$*"
[ -z "$ids" ] && ids=$(python3 -c "import json; print(' '.join(c['property_id'] for c in json.load(open('MANIFEST.json'))['checks']))")
res="{\"suite\": \"$suite\", \"tier\": \"$tier\", \"checks\": {"
first=1
for id in $ids; do
  out=$(./check $id $tier 2>&1); rc=$?
  line=$(echo "$out" | grep -E "^VIOLATION|ENGINE-FAILURE" | head -1 | cut -c1-300 | python3 -c "import sys,json; print(json.dumps(sys.stdin.read().strip()))")
  [ $first -eq 0 ] && res="$res, "
  first=0
  res="$res\"$id\": {\"rc\": $rc, \"first\": $line}"
  echo "$id rc=$rc $(echo "$out" | grep -E "^VIOLATION|ENGINE-FAILURE" | head -1 | cut -c1-220)"
done
res="$res}}"
if [ "${MERGE:-0}" = 1 ] && [ -f "$dir/result.json" ]; then
  # MERGE=1: keep the earlier verdicts of the checks not re-run now
  echo "$res" | python3 -c "
import json,sys
new=json.load(sys.stdin); old=json.load(open('$dir/result.json'))
old['suite']=new['suite']; old['checks'].update(new['checks'])
json.dump(old,open('$dir/result.json','w'),indent=4)"
else
  echo "$res" | python3 -m json.tool > "$dir/result.json"
fi
echo "suite: $suite"
