#!/usr/bin/env python3
"""Regenerates /verif/MANIFEST.json from the table below (kept in one place so the manifest stays valid)."""
import json, sys, os

ROOT = os.path.dirname(os.path.dirname(os.path.abspath(__file__)))

# id -> (category, technique, level text, level note, design ref)
CHECKS = {
 "C12": ("model_checking",
         "explicit-state BFS (stateright) over the real ErrorQueue implementations in lock-step with a FIFO reference model",
         "Every reachable state of ArrayVec<Error,N> (every N in the stated range) and of Vec<Error> (length-bounded) under push/pop/clear over a 2-5 error alphabet (capacities 1..5 quick, 1..12 thorough; Vec up to 4/8 entries) is visited; each transition executes the real queue code and compares pop result, length, emptiness and full drained content with a FIFO model. Complete inside the bound; the queue code does not branch on error values, so the alphabet is representative. Plus two deterministic deep histories (1200 steps, growth past 256 entries, drain, clear, reuse) outside the BFS bound.",
         "Trusted: the 15-line FIFO reference, stateright's BFS/dedup, Clone/Hash of the queue value. Capacities above the bound and pushes of other error values are not explored.",
         "DESIGN.md section 5 (C12)"),
 "C13": ("model_checking",
         "explicit-state BFS (stateright) over the documented SCPI device and full mandated command tree, every transition a real Node::run compared with a reference model of queue + ESR",
         "All reachable states (error queue content up to 3 (quick) / 4 (thorough) entries for the growable queue, the fixed queues of 2 and 3 entries without bound; ESR, ESE, SRE, status registers) of the documented device under an alphabet of whole program messages: valid commands, one failing message per error kind and raising mechanism, *OPC, SYST:ERR[:NEXT]?/COUNt?/ALL?, *ESR?, and multi-unit messages that mix failures and queries. Each transition runs the real parser, dispatcher, handlers and device glue and compares return value, response bytes, queue content and ESR with the model. Complete within the alphabet and bound; histories of any length are covered through the fixpoint. Plus three deterministic deep lock-step histories outside the BFS bound (300 unread items with COUNt? at 255/256/257, interleaved *OPC/reads, class-boundary error numbers).",
         "Trusted: the reference model (scpimodel.rs, ~250 lines, written from SCPI-99 21.8 / IEEE 488.2 11.5), the binding table message-text -> semantic action, stateright. Queue length is bounded for the growable queue; error kinds outside the alphabet are not explored.",
         "DESIGN.md section 5 (C13)"),
 "C15": ("model_checking",
         "explicit-state BFS (stateright) over the real OPERation/QUEStionable register sets via the real tree and set_condition, lock-step with a bitwise reference model",
         "Every reachable valuation of (condition, event, enable, PTR, NTR) over all subsets of a representative bit set (incl. bits 0, 14 and the unusable bit 15), under device-side condition updates (set_condition, set/clear_condition_bits), ENAB/PTR/NTR writes in decimal and #H, all five queries incl. the default-node form, *CLS, STAT:PRES and malformed writes; plus one slice per bit position 0..15 and a product slice of both sets. Every transition compares responses and all register fields with the model.",
         "Trusted: the bitwise reference model, the binding table, stateright. Register values outside the representative bit sets are covered only through the per-bit slices (the code is bitwise-uniform). STAT:PRES leaving the condition register alone follows SCPI-99 20.2.",
         "DESIGN.md section 5 (C15)"),
 "C16": ("model_checking",
         "explicit-state BFS (stateright), three slices over the documented device, every transition a real Node::run compared with an IEEE 488.2 section 11 reference model",
         "S1: all reachable (ESR, ESE, SRE, queue, self-test) states under *ESE/*SRE values covering every bit and several multi-bit masks, *ESR?, *STB? with MAV both ways, *CLS, *OPC, *OPC?, *TST?, *RST, *WAI, a failing message per ESR class, SYST:ERR? and multi-unit combinations. S2: OPER and QUES summary bits against SRE and *STB?. S3: every value 0..255 plus out-of-range, rounded and mistyped values written to *ESE and *SRE and read back. S4: error queue, QUES summary, OPER summary, ESB and MAV in every combination against seven *SRE masks. Response, return value and every device register are compared after each message. S2 lets the OPER register range over the subsets of {bit 0, bit 15}.",
         "Trusted: the reference model of the status byte (summary = event & enable per IEEE 488.2 11.4.3; MSS over all other bits incl. MAV; *CLS clears ESR, event registers and error queue), the binding table, stateright. Queue bound 1-2.",
         "DESIGN.md section 5 (C16)"),
 "C02": ("model_checking",
         "per-tree BFS over the reference resolver's header-level state graph; every (state, unit) transition replayed on the real Node::run (witness;unit) and compared; plus all 2-/3-unit messages and history runs",
         "For every tree of a bounded family (all unambiguous trees up to N nodes over a name pool with suffixed siblings, default leaves/branches, anonymous default leaf, root-only common commands) the reachable header levels and every transition under an alphabet of absolute/relative/common headers in four spellings, event and query form, are enumerated; each transition is validated against the implementation by running the witness message and comparing the handler-invocation log (which handler, which form) and the return value (-113 without invocation). All 2-unit (and, thorough, 3-unit) messages are also run directly, and units are re-run after failing/deep earlier messages. Unit alphabets also contain spellings whose numeric suffix is congruent to a defined one modulo 2^8 / 2^16.",
         "Every tree is built through the library's own Node::leaf / default_leaf / branch / default_branch / root constructors, and one fixed tree additionally through the Leaf! / Branch! / Root! macros (all one- and two-unit messages over a 16-header list). Trusted: the reference resolver (refmodel/resolver.rs, self-checked against the repo's tree_traversal.csv), the reference mnemonic matcher of C03, the tree-family generator. Trees larger than the bound, more than 3 children per branch and handlers with parameters are outside this check.",
         "DESIGN.md section 5 (C02)"),
 "C03": ("exploration",
         "exhaustive enumeration of (definition, candidate) pairs against an independent three-valued matcher",
         "Every definition of SCPI shape over {A,B}/{a,b} with suffixes {none,1,2,12,01,0} x every candidate string up to length 5/6 over {a,A,b,B,1,2,0,_}, plus 62 real SCPI mnemonics (incl. 12-character ones) x their edit/case/suffix neighbourhood, through mnemonic_match, Token::match_program_header and mnemonic_compare; every real mnemonic is also installed as the single node of a command tree and each candidate of its neighbourhood sent as a program header (2 M runs; the handler runs iff the reference matches). Complete in the stated space; the matcher scans bytes uniformly so two letters per case class are representative. Definitions with 9-12 digit suffixes and candidates whose suffix wraps modulo 2^8/2^16/2^32/2^64 or differs only in leading/trailing digits are included as a directed family.",
         "Trusted: the 40-line reference matcher (self-checked on the repo's own test expectations). Suffixes with leading zeros are not judged (property does not pin them).",
         "DESIGN.md section 5 (C03)"),
 "C14": ("exploration",
         "exhaustive enumeration of all 65536 error numbers against an independent class table, plus a table of library-raised faults",
         "Every i16 value through Error::custom / ErrorCode::Custom and, where defined, the standard variant (code round trip, esr_mask, message); ~75 faulty messages (syntax incl. an expression glued to a header, header, arity, type -> command error; value -> execution error) run on the documented device checking error class and the ESR bit set; non-numeric elements (string, block, expression, non-decimal, character data incl. the special-value mnemonics) offered to 12 quantity / Amplitude / Db types must raise a command error; syntax faults inside numeric and channel lists must be command errors; every parameter fault of a 14-entry table as first, second and third parameter (same class wherever it stands); response-buffer exhaustion at every capacity of 7 messages must raise an execution error; every number of an independently written list of the SCPI-99 21.8 standard error numbers must be known to the lookup and report itself.",
         "Trusted: the class table in scpimodel::esr_bit_of (15 lines from IEEE 488.2 11.5.1 / SCPI-99 21.8.2); the fault table's classification of each message.",
         "DESIGN.md section 5 (C14)"),
 "C05": ("fault_enumeration",
         "exhaustive enumeration of messages of k units with every failure kind at every position, plus formatter faults at every write (ArrayVec capacity sweep), against a reference executor",
         "All messages of 1..k units (k = 4 quick / 6 thorough) over 17 unit kinds (ok kinds per form incl. a query with a long response header and short data, handler-returned errors from event and from query after a partial write, -108, -109, -104, -222, -113, lexical error in data, lexical error in header) on a flat and a nested-default tree; for every successful message every buffer capacity below the response length, and for every failing message every capacity around the bytes written in front of the failing unit (a capacity that holds them must yield the unit's own error - a later buffer or terminator failure must not replace it - and a smaller one must yield -225 at the unit whose write does not fit). Compared: the exact handler-invocation log (order, multiplicity, nothing after the failing unit), the returned error (code and extended text) and the Device::handle_error log (exactly that error once; never on success). Directed additions: handler-returned errors with codes 0, -42, +5, and a string response with an embedded quote behind a long segment.",
         "Trusted: the reference executor (expect/judge in c05.rs), the reference response layout used to locate the failing unit under a capacity fault. Formatter faults other than exhaustion cannot be injected from outside the crate (ResponseUnit has private fields).",
         "DESIGN.md section 5 (C05)"),
 "C06": ("exploration",
         "exhaustive enumeration of (data tuple, pull pattern, unit position, follower) combinations with token ranges compared as byte offsets",
         "Every n-tuple of data representatives of all seven 488.2 types (incl. strings/blocks containing separators) x every required/optional pull pattern x unit position x follower x event/query. Pulls must hand out exactly the unit's own elements (type and byte range), then -109 / None; leftovers give -108 and the next unit does not start; neighbours never receive the observed unit's data.",
         "Trusted: the element table with hand-written payload ranges. Tuples longer than the bound and more than 4 pulls are outside.",
         "DESIGN.md section 5 (C06)"),
 "C10": ("exploration",
         "exhaustive enumeration of successful messages up to k units x separators x endings, byte-exact comparison with reference framing on Vec and ArrayVec buffers",
         "Every sequence of up to 3 (quick) / 6 (thorough) units over 21 unit kinds (events in compound and in common-command form, queries with 1-5 data of all types, one- and two-level response headers, a long header with one short datum, a comma-joined list from a partially filled ArrayVec as one element between others, relative/common headers) x 3 unit-separator spellings x 8 message endings; the output buffer must equal the hand-written unit texts joined by `;` with exactly one NL iff there is output. Directed additions: a unit with 300 data elements, data ending in `;` or NL, long quoted strings and error items.",
         "Trusted: the hand-written expected response text per unit kind. How an empty response unit is framed is not judged.",
         "DESIGN.md section 5 (C10)"),
 "C11": ("fault_enumeration",
         "for every message every ArrayVec capacity 0..|R|+2 (exhaustion at every write) with a counting global allocator armed around each run",
         "Every C10-style message up to 3 (quick) / 5 (thorough) units x separators x endings plus queries of every formattable type family, at every capacity from 0 to beyond the full response: fits => identical bytes, does not fit => -225 once, never Ok and never a panic (what the buffer holds after a failure is not pinned); zero allocator calls in every run, including all strings up to length 3/5 over a lexical alphabet (error paths) with a pull-and-convert-everything handler.",
         "Trusted: the counting allocator (self-checked), ArrayVec as the fixed-capacity buffer. Capacities above 256 are not instantiated.",
         "DESIGN.md section 5 (C11)"),
 "C04": ("exploration",
         "exhaustive enumeration of all strings up to length n over one byte per lexical class, contextual continuations, grammar derivations and their single-point corruptions, judged by an independent three-valued IEEE 488.2 recogniser",
         "Every string up to length 5 (quick) / 6 (thorough) over 28 class-representative bytes, every continuation up to length 4/5 behind 13 prefixes that put each data reader at offset 0, ~20k grammar derivations with all white-space placements and ~1M single-point corruptions. Well-formed inputs must be tokenized into exactly the 488.2 elements with exact byte ranges (and, where the headers exist, run successfully with handlers seeing exactly those data elements); inputs in a listed violation class must be refused with a command error by the tokenizer (lexical classes) or by Node::run (structural classes); everything else is not judged. Plus directed families: elements of 32 lengths from 11 to 65549 bytes in every position, every byte value 0..255 at every position of 8 well-formed messages, and everything `#` can introduce (every digit character behind every radix letter, block length fields of every width 1..9, `#` followed by any other letter).",
         "Trusted: refmodel/lex488.rs (~450 lines from 488.2 7.3-7.7, self-checked on accept/reject/unspecified tables). White space representatives SP/TAB; inputs the standard or the property leave open are classified unspecified (counted in the evidence).",
         "DESIGN.md section 5 (C04)"),
 "C01": ("exploration",
         "exhaustive enumeration of all strings up to length n over one byte per lexical class x tree shapes x handler plans (incl. every typed conversion of every pulled token), contextual continuations and direct list-expression sweeps, under both build profiles, with per-case panic capture, watchdog and crash journal",
         "Every string up to length 4 (quick) / 5 (thorough) over 28 class-representative bytes against 3 tree shapes x 5 handler plans, every continuation up to length 4/5 behind 15 prefixes that place each data reader (block, string, expression, channel list, non-decimal, suffix) at offset 0, and every string up to length 5/7 over the list alphabet through the channel-list and numeric-list iterators, spec iteration and all six tuple conversions. Each case must return normally with Ok or a SCPI error other than -300 'Internal parser error'; panics are caught per case, non-termination by a watchdog, process death by the ./check wrapper from a per-chunk journal. Run under release and under debug-assertions + overflow-checks. Plus directed inputs beyond the length bound: every literal of the C07 grammar as a parameter, elements of 32 lengths from 11 to 65549 bytes, every byte value at every position of 8 well-formed messages, list/unit/header chains of up to 65536 items.",
         "Trusted: catch_unwind/watchdog machinery; the class-representative alphabet (readers branch on class membership and on block length digits 0/1/9). Strings longer than the bound are covered only behind the listed prefixes.",
         "DESIGN.md section 5 (C01)"),
 "C07": ("exploration",
         "exhaustive structured literal families (sign x integer part x fraction x exponent, all short literals over a numeric alphabet, non-decimal literals, keywords, other types) x 10 integer targets + bool, against an exact big-integer decimal oracle",
         "About 18k-36k grammar literals (every type bound -1/+0/+1/+2, same-digit-count overflows, every half-integer spelling incl. the f32 / f64 neighbours of one half, odd integers around 2^23, 2^24, 2^52, 2^53, exponents from E-400 to E400) and every NRf literal up to length 7/9 over `+-0159.E` and up to length 5/7 over `-.E0123456789`, each converted to all ten integer types and bool through TryFrom<Token> and through Parameters::next_data in a real message; non-decimal literals of every bound incl. 64-bit overflow patterns; MIN/MAX keywords; every other element type must give a command error. Ok(r) is accepted iff |r - x| <= 1/2 + one ulp of the intermediate float type at the exact value x (exactly x for NR1 spellings); -222 iff some such integer is unrepresentable.",
         "Trusted: refmodel/decnum.rs + bigint.rs (exact rational arithmetic, self-checked), the tolerance fixed in DESIGN.md 3.3. 32/64-bit value space is covered by boundary-directed families, not exhaustively.",
         "DESIGN.md section 5 (C07)"),
 "C08": ("exploration",
         "exhaustive structured literal families and constructed halfway cases for f32/f64 against a correctly-rounding reference, all keyword/boolean spellings, and the full (target type x element type) matrix",
         "~20k literals incl. 17-55 digit mantissas at every float range boundary, converted bit-for-bit against core::str::parse; constructed exact midpoints (and midpoint +/- 1 in the last digit) between adjacent floats for every f32 exponent incl. subnormals and every (8th) f64 exponent over 8/6 (quick) and 2048/512 (thorough) mantissa patterns, where the correct neighbour is known by construction from big-integer arithmetic; every case pattern / prefix / near miss of the float keywords and of ON/OFF; 27 targets x 8 element kinds with the documented accept list, each pair converted directly and through a real message with next_data and with next_optional_data (same verdict; a present element is never reported absent).",
         "Trusted: core::str::parse as correctly-rounding reference (cross-checked against the by-construction expectation on every halfway case), refmodel/bigint.rs, the accept-list table transcribed from the conversions' rustdoc. f64 mantissa space is covered by patterns, not exhaustively.",
         "DESIGN.md section 5 (C08)"),
 "C09": ("exploration",
         "exhaustive / structured enumeration of formattable values, each formatted by the real ResponseData impl, decoded by an independent IEEE 488.2 response decoder and parsed back by the library's own parser",
         "All 8/16-bit integers in decimal and #H/#Q/#B; boundary-directed 32/64-bit integers; all 2^32 f32 bit patterns (thorough; quick: every exponent x ~1050 mantissa patterns + all top-half patterns) and ~270k structured f64 patterns, bit-for-bit; NaN/infinity sentinels; bool; every string up to length 4/5 over quote/separator bytes; blocks of every length 0..120 and around 1000; &str, character, expression data; lists of 0..4 elements; derived-enum variants; every standard error and custom errors with and without extended text. Directed additions: block lengths at every digit-count boundary up to 10^7 / 10^8 bytes, custom descriptions with quotes attached to standard error numbers.",
         "Trusted: refmodel/respdec.rs (~250 lines from 488.2 8.7, self-checked), core::str::parse for decoding floats. Float text is judged against the NRf grammar (not the stricter talker form, see DESIGN 3.3); finite floats whose text equals a sentinel are excluded.",
         "DESIGN.md section 5 (C09)"),
 "C19": ("exploration",
         "exhaustive enumeration of all list bodies up to length k over the list alphabet plus grammar derivations and single-point corruptions, against reference parsers of SCPI-99 8.3.2/8.3.3",
         "Every string up to length 6 (quick) / 8 (thorough) over `12-+!:,.E'a SP` as numeric-list and as channel-list body, ~900 grammar derivations (signs, fractions, exponents, 1-3 dimensions, ranges, path names with embedded separators) and ~60k single-point corruptions. The iterators must yield exactly the entries the text denotes, stop with an error exactly at a listed fault, and every ChannelSpec must report its dimension, per-dimension values and all six tuple conversions as the numbers of the text. Short bodies are also observed through Parameters::next_data in a real message.",
         "Trusted: refmodel/lists.rs (~300 lines, self-checked on the repo's own csv expectations). Text that leaves the pinned grammar (white space, trailing comma, non-integer channel numbers, missing separator between channel entries) gives no verdict from that point; an entry directly adjacent to a fault may or may not have been yielded.",
         "DESIGN.md section 5 (C19)"),
 "C18": ("exploration",
         "exhaustive enumeration of suffix strings up to a length bound per quantity and storage type, all letter-case variants of accepted suffixes, against a rule-based multiplier x unit oracle",
         "For each of the 14 supported quantities, with f32 and f64 storage: every suffix string up to length 3/4 over letters `.` `/` and up to length 4/6 over the SCPI unit vocabulary, every documented suffix, over-long and malformed suffixes; every accepted suffix in all 2^len case variants x 6 literals must scale by the SCPI factor (relative 2e-6 / 1e-12); every non-derivable suffix and every non-numeric element (string, block, expression, non-decimal, and character data incl. MAXimum MINimum INFinity NINFinity NAN DEFault UP DOWN) must be refused by every quantity, by Amplitude and by Db; bare numbers are taken in the base unit; Amplitude (PK/PP/RMS) and Db (DB*) forms are classified with the number unchanged. Plus every one-character extension and several longer extensions of each documented suffix.",
         "Trusted: the rule oracle in c18.rs (multiplier table from IEEE 488.2 7.7.3 / SCPI-99, unit names and SI factors per quantity). Suffixes allowed by the rules but not implemented (e.g. GV) give no verdict; suffixes in the library's documented tables must be accepted.",
         "DESIGN.md section 5 (C18)"),
 "C17": ("exploration",
         "exhaustive enumeration over (token, underlying type, (min,max,default) configuration) grids with a direct transcription of the property as oracle",
         "~290 tokens (every case pattern, prefix and near miss of MAXimum MINimum DEFault UP DOWN, float keywords, literals around every bound and half, suffixed numbers, other element types) x 8 underlying types (4 integer widths, f32, f64, Frequency, Time) x ~90 configurations over a 7-point grid per type incl. type extremes, infinities and min = max, through all three resolution entry points; plus every grid value, NaN and each keyword variant.",
         "Trusted: the reference keyword matcher of C03; non-keyword tokens are compared differentially with the underlying type's own conversion (decided by C07/C08/C18). Configurations keep min <= default <= max.",
         "DESIGN.md section 5 (C17)"),
 "C20": ("exploration",
         "a family of ~630 enum definitions generated at build time and compiled with the real derive macro; every candidate string up to a bound per enum against the reference matcher",
         "Every subset of size 1..3 of a 12-mnemonic pool (suffixed siblings ALPHa1/ALPHa2, L125/L1, digits-only differences, suffix-less, long/short-only forms) with pairwise non-matching members, in several variant orders, with unit and single-field variants, compiled with #[derive(ScpiEnum)]; for each enum every candidate of length <= 4/6 over `aAbBlL125_` plus longer pool spellings: selection by from_mnemonic and TryFrom<Token> must agree with the reference matcher (else None / -224), other element types give -104, mnemonic() returns the declared literal, and each variant's response text selects the same variant when sent back.",
         "Trusted: refmodel/mnemonic.rs (C03's reference), the build.rs generator. Enums with more than 3 variants and mnemonics outside the pool are not generated.",
         "DESIGN.md section 5 (C20)"),
}

NOT_YET = "check not built yet (planned: DESIGN.md section 5 describes the bounded exhaustive exploration that will decide it)"

def main():
    props = [json.loads(l) for l in open(os.path.join(ROOT, "properties.jsonl"))]
    checks, na = [], []
    for p in props:
        pid = p["id"]
        if pid in CHECKS:
            cat, tech, text, note, ref = CHECKS[pid]
            checks.append({
                "property_id": pid,
                "quick_cmd": f"./check {pid} quick",
                "thorough_cmd": f"./check {pid} thorough",
                "evidence_file": f"/verif/evidence/{pid}.json",
                "replay_cmd_template": "./check --replay {path}",
                "engine": "verif-harness",
                "level_claimed": {"category": cat, "text": text, "design_ref": ref},
                "level_note": note,
                "technique": tech,
            })
        else:
            na.append({"property_id": pid, "reason": NOT_YET})
    m = {
        "version": 1,
        "setup_cmd": "./setup.sh",
        "hooks": {
            "guard": "atmelfan_scpi_rs_verif",
            "enable": "no hooks are needed: every observation is made through the public API (handlers, Device::handle_error, Tokenizer, formatters, a counting global allocator in the harness); the cfg name is reserved and unused",
            "baseline_off_cmd": "cd /repo && cargo test --workspace --no-fail-fast --offline",
            "source_commits": [],
            "add_only": True,
        },
        "engines": [{
            "name": "verif-harness",
            "path": "/verif/harness",
            "serves_properties": sorted(CHECKS.keys()),
            "kind_free_text": "one Rust binary, path-depends on /repo/{scpi,scpi-contrib,scpi-derive}; bounded exhaustive enumeration of inputs/programs/fault positions and stateright BFS over the real implementation in lock-step with reference models; built in two profiles (release, dbg = release + debug-assertions + overflow-checks)",
        }],
        "checks": checks,
        "notes": "See DESIGN.md. known_findings.txt lists recorded findings (known:) and repaired defects (fixed:). seeded/ holds 200 independently written property-breaking changes and which check catches each; refactors/ holds 36 independently written behaviour-preserving changes (no check reports any); mutation/ holds the results of two mechanical mutation sweeps.",
        "not_applicable": na,
    }
    json.dump(m, open(os.path.join(ROOT, "MANIFEST.json"), "w"), indent=1)
    print(f"MANIFEST.json: {len(checks)} checks, {len(na)} not claimed")

main()
