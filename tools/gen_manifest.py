#!/usr/bin/env python3
"""Regenerates /verif/MANIFEST.json from the table below (kept in one place so the manifest stays valid)."""
import json, sys, os

ROOT = os.path.dirname(os.path.dirname(os.path.abspath(__file__)))

# id -> (category, technique, level text, level note, design ref)
CHECKS = {
 "C12": ("model_checking",
         "explicit-state BFS (stateright) over the real ErrorQueue implementations in lock-step with a FIFO reference model",
         "Every reachable state of ArrayVec<Error,N> (every N in the stated range) and of Vec<Error> (length-bounded) under push/pop/clear over a 3-5 error alphabet is visited; each transition executes the real queue code and compares pop result, length, emptiness and full drained content with a FIFO model. Complete inside the bound; the queue code does not branch on error values, so the alphabet is representative.",
         "Trusted: the 15-line FIFO reference, stateright's BFS/dedup, Clone/Hash of the queue value. Capacities above the bound and pushes of other error values are not explored.",
         "DESIGN.md section 5 (C12)"),
}

NOT_YET = "check not built yet (planned: DESIGN.md section 5 describes the bounded exhaustive exploration that will decide it)"

def main():
    props = [json.loads(l) for l in open(os.path.join(ROOT, "properties.jsonl"))]
    checks, na = [], []
    for p in props:
        pid = p["id"]
        if pid in CHECKS:
            cat, tech, text, note, ref = CHECKS[pid]
            checks.append({
                "property_id": pid,
                "quick_cmd": f"./check {pid} quick",
                "thorough_cmd": f"./check {pid} thorough",
                "evidence_file": f"/verif/evidence/{pid}.json",
                "replay_cmd_template": "./check --replay {path}",
                "engine": "verif-harness",
                "level_claimed": {"category": cat, "text": text, "design_ref": ref},
                "level_note": note,
                "technique": tech,
            })
        else:
            na.append({"property_id": pid, "reason": NOT_YET})
    m = {
        "version": 1,
        "setup_cmd": "./setup.sh",
        "hooks": {
            "guard": "atmelfan_scpi_rs_verif",
            "enable": "no hooks are needed: every observation is made through the public API (handlers, Device::handle_error, Tokenizer, formatters, a counting global allocator in the harness); the cfg name is reserved and unused",
            "baseline_off_cmd": "cd /repo && cargo test --workspace --no-fail-fast --offline",
            "source_commits": [],
            "add_only": True,
        },
        "engines": [{
            "name": "verif-harness",
            "path": "/verif/harness",
            "serves_properties": sorted(CHECKS.keys()),
            "kind_free_text": "one Rust binary, path-depends on /repo/{scpi,scpi-contrib,scpi-derive}; bounded exhaustive enumeration of inputs/programs/fault positions and stateright BFS over the real implementation in lock-step with reference models; built in two profiles (release, dbg = release + debug-assertions + overflow-checks)",
        }],
        "checks": checks,
        "notes": "See DESIGN.md. known_findings.txt lists recorded findings (known:) and repaired defects (fixed:). seeded/ holds independently written property-breaking changes and which check catches each.",
        "not_applicable": na,
    }
    json.dump(m, open(os.path.join(ROOT, "MANIFEST.json"), "w"), indent=1)
    print(f"MANIFEST.json: {len(checks)} checks, {len(na)} not claimed")

main()
