#!/bin/bash
# Runs every claimed check at the given tier (default quick), validates manifest and evidence.
cd "$(dirname "$0")/.."
tier="${1:-quick}"
fail=0
for id in $(python3 -c "import json; print(' '.join(c['property_id'] for c in json.load(open('MANIFEST.json'))['checks']))"); do
  s=$(date +%s.%N)
  out=$(./check $id $tier 2>&1); rc=$?
  e=$(date +%s.%N)
  printf "%s rc=%d %.1fs %s\n" $id $rc $(echo "$e - $s" | bc) "$(echo "$out" | grep -E "VIOLATION|KNOWN-FINDING|ENGINE" | head -3 | cut -c1-200)"
  [ $rc -ne 0 ] && fail=1
done
python3-vt - <<'PY'
import json, jsonschema, sys
m = json.load(open('/verif/MANIFEST.json'))
jsonschema.validate(m, json.load(open('/root/.vp/MANIFEST.schema.json')))
es = json.load(open('/root/.vp/EVIDENCE.schema.json'))
bad = 0
for c in m['checks']:
    try:
        e = json.load(open(c['evidence_file']))
        jsonschema.validate(e, es)
        if e['level'] != c['level_claimed']['category']:
            print('LEVEL MISMATCH', c['property_id'], e['level'], c['level_claimed']['category']); bad = 1
    except Exception as ex:
        print('EVIDENCE INVALID', c['property_id'], str(ex)[:200]); bad = 1
print('manifest+evidence valid' if not bad else 'PROBLEMS')
PY
exit $fail
