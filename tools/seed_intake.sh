#!/bin/bash
# tools/seed_intake.sh <worktree> <k> <seed id> <property id>
# Re-verifies a sub-agent's seeded change in its scratch worktree (suite passes with the change, the demo
# fails with it and passes without) and, if all three hold, stores it under /verif/seeded/<seed id>/.
set -u
wt="$1"; k="$2"; sid="$3"; pid="$4"
patch="$wt/patch$k.diff"; demo="$wt/demo$k.rs"; meta="$wt/meta$k.txt"
[ -f "$patch" ] && [ -f "$demo" ] || { echo "missing patch/demo"; exit 2; }
place=$(head -3 "$demo" | grep -o "scpi[-a-z]*/tests" | head -1); [ -z "$place" ] && place="scpi/tests"
cd "$wt" || exit 2
git checkout -- . ; rm -f scpi/tests/verif_demo.rs scpi-contrib/tests/verif_demo.rs
crate=$(dirname "$place")
pkg=$([ "$crate" = "scpi-contrib" ] && echo scpi-contrib || echo scpi)
run_demo() { cp "$demo" "$wt/$place/verif_demo.rs"; (cd "$wt" && cargo test --offline $([ "$pkg" = scpi ] && echo "-p scpi --features arrayvec" || echo "--workspace") --test verif_demo 2>&1 | grep -E "^test result|^error(\[|:)" | head -3); rm -f "$wt/$place/verif_demo.rs"; }
without=$(run_demo)
git apply "$patch" || { echo "patch does not apply"; exit 2; }
with=$(run_demo)
suite=$(cargo test --workspace --no-fail-fast --offline 2>&1 | awk '/^test result:/ {p+=$4; f+=$6} /^error/ {e=1} END {printf "%d passed, %d failed%s", p, f, e?" BUILD ERROR":""}')
git checkout -- .
echo "demo without change: $without"; echo "demo with change: $with"; echo "suite with change: $suite"
ok=1
echo "$without" | grep -q "test result: ok" || ok=0
echo "$with" | grep -q "test result: FAILED" || ok=0
echo "$suite" | grep -q " 0 failed$" || ok=0
if [ $ok -eq 1 ]; then
  d=/verif/seeded/$sid; mkdir -p $d
  cp "$patch" $d/patch.diff; cp "$demo" $d/demo.rs
  python3 - "$d" "$pid" "$meta" "$place" "$without" "$with" "$suite" <<'PY'
import json,sys
d,pid,meta,place,without,withc,suite=sys.argv[1:8]
txt=open(meta).read() if meta else ""
json.dump({"property": pid, "author": "independent sub-agent (saw only the property text and a scratch worktree)",
  "what_and_needs_to_manifest": txt.strip(),
  "demo_location": place+"/",
  "verified_by_me": {"demo_without_change": without.strip(), "demo_with_change": withc.strip(), "repository_suite_with_change": suite.strip(),
     "commands": ["git apply patch.diff (in a scratch worktree)", "cargo test --offline -p <crate> --test verif_demo", "cargo test --workspace --no-fail-fast --offline"]}},
  open(d+"/meta.json","w"), indent=1)
PY
  echo "KEPT as $d"
else
  echo "REJECTED (verification failed)"
fi
