#!/usr/bin/env python3
"""Mutation worker: tools/mut_worker.py <worker index> <number of workers> <mutants.jsonl> <work root>
Sets up <work root>/w<i>/{repo,harness,out,target} (a git worktree of /repo and a private copy of the
harness bound to it), then, for every mutant with id % N == i: apply, build the harness, run the quick
checks (own-area checks first) until one reports a violation, restore. Appends one JSON line per mutant
to <work root>/results_w<i>.jsonl. Evaluation tooling only; nothing here is a registered check."""
import json, os, subprocess, sys, time, shutil

i, n, mfile, root = int(sys.argv[1]), int(sys.argv[2]), sys.argv[3], sys.argv[4]
w = f"{root}/w{i}"
repo, har, out, tgt = f"{w}/repo", f"{w}/harness", f"{w}/out", f"{w}/target"
env = dict(os.environ, CARGO_NET_OFFLINE="true")

def sh(cmd, **kw):
    return subprocess.run(cmd, shell=True, capture_output=True, text=True, env=env, **kw)

if not os.path.isdir(repo):
    os.makedirs(w, exist_ok=True)
    sh(f"git -C /repo worktree add --detach {repo} HEAD")
    sh(f"rsync -a --exclude target /verif/harness/ {har}/")
    sh(f"sed -i 's#/repo/#{repo}/#' {har}/Cargo.toml")
    sh(f"sed -i 's#/verif/target#{tgt}#' {har}/.cargo/config.toml")
    sh(f"sed -i 's#pub const VERIF_DIR: &str = \"/verif\";#pub const VERIF_DIR: \\&str = \"{out}\";#' {har}/src/core.rs")
    os.makedirs(f"{out}/evidence", exist_ok=True)
    os.makedirs(f"{out}/replays", exist_ok=True)
    shutil.copy("/verif/known_findings.txt", f"{out}/known_findings.txt")
    r = sh("cargo build --offline --profile release", cwd=har)
    if r.returncode != 0:
        print("initial build failed", r.stderr[-2000:]); sys.exit(2)

ALL = ["C%02d" % k for k in range(1, 21)]
FIRST = {
    "tokenizer/mod.rs": ["C04", "C01", "C06"], "tokenizer/util.rs": ["C03", "C20", "C02", "C07"], "parameters.rs": ["C07", "C08", "C06", "C01"],
    "suffix.rs": ["C18", "C14"], "response/mod.rs": ["C09", "C10", "C11", "C05"], "arrayformatter.rs": ["C11", "C05", "C10"], "vecformatter.rs": ["C10", "C09"],
    "tree/mod.rs": ["C02", "C05", "C06", "C04", "C10"], "error.rs": ["C12", "C14", "C09", "C13"], "channel_list.rs": ["C19", "C01"], "numeric_list.rs": ["C19", "C01"],
    "scpi1999/mod.rs": ["C13", "C15", "C16"], "numeric.rs": ["C17"], "status/": ["C15", "C16"], "system/": ["C13", "C16"], "common.rs": ["C16", "C13"], "scpi-derive": ["C20", "C09"],
}
def order(f):
    for k, v in FIRST.items():
        if k in f:
            return v + [c for c in ALL if c not in v]
    return ALL

binp = f"{tgt}/release/verif-harness"
res = open(f"{root}/results_w{i}.jsonl", "a")
done = set()
try:
    for l in open(f"{root}/results_w{i}.jsonl"):
        done.add(json.loads(l)["id"])
except Exception:
    pass
for l in open(mfile):
    m = json.loads(l)
    if m["id"] % n != i or m["id"] in done:
        continue
    path = f"{repo}/{m['file']}"
    lines = open(path).read().split("\n")
    if lines[m["line"] - 1] != m["old_line"]:
        rec = dict(m, verdict="stale"); res.write(json.dumps(rec) + "\n"); res.flush(); continue
    lines[m["line"] - 1] = m["new_line"]
    open(path, "w").write("\n".join(lines))
    t0 = time.time()
    verdict, by, first = "survived", None, None
    r = sh("cargo build --offline --profile release", cwd=har)
    if r.returncode != 0:
        verdict = "nocompile"
    else:
        for c in order(m["file"]):
            try:
                rr = subprocess.run([binp, c, "quick"], capture_output=True, text=True, env=env, timeout=240)
                rc = rr.returncode
            except subprocess.TimeoutExpired:
                verdict, by, first = "detected", c, "TIMEOUT (no termination within 240 s)"; break
            if rc == 1:
                v = [x for x in rr.stdout.split("\n") if x.startswith("VIOLATION")]
                verdict, by, first = "detected", c, (v[0][:260] if v else ""); break
            if rc < 0 or rc >= 128:
                verdict, by, first = "detected", c, f"process died rc={rc}"; break
            if rc != 0:
                verdict, by, first = "engine", c, (rr.stderr[-300:] + rr.stdout[-300:]); break
    suite = None
    if verdict == "survived" and os.environ.get("SUITE") == "1":
        # does the repository's own suite notice this mutant?
        r = sh("cargo test --workspace --no-fail-fast --offline 2>&1 | grep -E '^test result|^error' ", cwd=repo)
        lines = [x for x in r.stdout.split("\n") if x.startswith("test result") or x.startswith("error")]
        suite = "fails" if any(("FAILED" in x or x.startswith("error")) for x in lines) or not lines else "passes"
    sh("git checkout -- .", cwd=repo)
    rec = dict(m, verdict=verdict, by=by, first=first, suite=suite, secs=round(time.time() - t0, 1))
    res.write(json.dumps(rec) + "\n"); res.flush()
print("worker", i, "done")
