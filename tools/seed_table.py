#!/usr/bin/env python3
"""Regenerates the seeded-change table of DESIGN.md section 8 from seeded/*/meta.json and result.json."""
import json, glob, os, re
root = os.path.dirname(os.path.dirname(os.path.abspath(__file__)))
rows = []
for d in sorted(glob.glob(os.path.join(root, "seeded", "C*"))):
    sid = os.path.basename(d)
    meta = json.load(open(os.path.join(d, "meta.json")))
    res = json.load(open(os.path.join(d, "result.json"))) if os.path.exists(os.path.join(d, "result.json")) else None
    txt = meta["what_and_needs_to_manifest"].replace("\n", " ")
    txt = re.sub(r"\s+", " ", txt)
    txt = txt[:230] + ("…" if len(txt) > 230 else "")
    txt = txt.replace("|", "\\|")
    if res:
        caught = [k for k, v in res["checks"].items() if v["rc"] == 1]
        broken = [k for k, v in res["checks"].items() if v["rc"] not in (0, 1)]
        own = meta["property"] in caught
        c = ", ".join(caught) if caught else "**none**"
        if broken:
            c += " (machinery failure: " + ", ".join(broken) + ")"
        suite = res["suite"].replace("repo tests: ", "")
        if suite.startswith("(not re-run"):  # SKIP_SUITE=1: the intake run with the change is the suite verdict
            suite = meta["verified_by_me"]["repository_suite_with_change"] + " (intake)"
    else:
        c, own, suite = "not evaluated", False, "?"
    rows.append(f"| `{sid}` | {meta['property']} | {txt} | {suite} | {c} | {'yes' if own else 'NO'} |")
table = "| seed | property | what it breaks / needs (author's words, truncated) | repo suite with change | checks reporting VIOLATION (quick tier) | own property's check |\n|---|---|---|---|---|---|\n" + "\n".join(rows)
p = os.path.join(root, "DESIGN.md")
s = open(p).read()
begin, end = "<!-- SEEDED_TABLE_BEGIN -->", "<!-- SEEDED_TABLE_END -->"
if "SEEDED_TABLE_PLACEHOLDER" in s:
    s = s.replace("SEEDED_TABLE_PLACEHOLDER", begin + "\n" + table + "\n" + end)
else:
    i, j = s.index(begin), s.index(end)
    s = s[:i] + begin + "\n" + table + "\n" + s[j:]
open(p, "w").write(s)
print(f"{len(rows)} seeds in table")
