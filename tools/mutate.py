#!/usr/bin/env python3
"""Mechanical mutants of the library source, for evaluating the checks (not a verification technique:
a way to look for gaps). Prints one JSON object per mutant: {"id", "file", "line", "old", "new", "op"}.

    tools/mutate.py <repo root> [max per file]

Operators (line based, comments / test modules / attribute lines skipped):
  rel    < <= > >= == !=   replaced by a neighbour (only where spaces surround the operator)
  logic  && <-> ||
  neg    `!ident` / `!(`  -> negation removed
  const  integer literal n -> n+1 (and n-1 for n > 0)
  arith  ` + ` <-> ` - `, ` * ` -> ` + `
  bool   true <-> false
  ret    `return Err(` / `Err(` line in a guard -> not generated (too destructive)
  byte   byte literal b'x' -> another byte of the same class
  meth   is_ascii_digit <-> is_ascii_alphabetic, is_ascii_uppercase <-> is_ascii_lowercase,
         checked_add -> wrapping_add, checked_mul -> wrapping_mul, `.min(` <-> `.max(`,
         `|=` -> `=`, `&=` -> `|=`, ` | ` <-> ` & `, `<<` <-> `>>`
"""
import json, re, sys, os

FILES = [
    "scpi/src/parser/tokenizer/mod.rs", "scpi/src/parser/tokenizer/util.rs", "scpi/src/parser/parameters.rs",
    "scpi/src/parser/suffix.rs", "scpi/src/parser/response/mod.rs", "scpi/src/parser/response/arrayformatter.rs",
    "scpi/src/parser/response/vecformatter.rs", "scpi/src/tree/mod.rs", "scpi/src/error.rs",
    "scpi/src/parser/expression/channel_list.rs", "scpi/src/parser/expression/numeric_list.rs",
    "scpi-contrib/src/scpi1999/mod.rs", "scpi-contrib/src/scpi1999/numeric.rs", "scpi-contrib/src/scpi1999/status/mod.rs",
    "scpi-contrib/src/scpi1999/status/operation.rs", "scpi-contrib/src/scpi1999/status/questionable.rs",
    "scpi-contrib/src/scpi1999/system/error.rs", "scpi-contrib/src/scpi1999/system/mod.rs", "scpi-contrib/src/ieee488/common.rs",
    "scpi-derive/src/lib.rs",
]

REL = {" < ": [" <= ", " > "], " <= ": [" < "], " > ": [" >= ", " < "], " >= ": [" > "], " == ": [" != "], " != ": [" == "]}
PAIRS = [
    (" && ", " || "), (" || ", " && "), (" + ", " - "), (" - ", " + "), (" * ", " + "),
    ("true", "false"), ("false", "true"),
    ("is_ascii_digit", "is_ascii_alphabetic"), ("is_ascii_alphabetic", "is_ascii_digit"),
    ("is_ascii_uppercase", "is_ascii_lowercase"), ("is_ascii_lowercase", "is_ascii_uppercase"),
    ("checked_add", "wrapping_add"), ("checked_mul", "wrapping_mul"), ("checked_sub", "wrapping_sub"),
    (".min(", ".max("), (".max(", ".min("), (" |= ", " = "), (" &= ", " |= "), (" | ", " & "), (" & ", " | "),
    (" << ", " >> "), (" >> ", " << "), ("eq_ignore_ascii_case", "eq"), (".is_empty()", ".is_empty() == false"),
    (".is_some()", ".is_none()"), (".is_none()", ".is_some()"), (".is_ok()", ".is_err()"), (".is_err()", ".is_ok()"),
    ("pop_at(0)", "pop()"), ("remove(0)", "pop().unwrap()"), (".first()", ".last()"), (".last()", ".first()"),
    ("saturating_sub", "wrapping_sub"), (" as u8", " as i8 as u8"), ("to_ascii_uppercase", "to_ascii_lowercase"),
]


def code_part(line):
    # strip // comments (naive: not inside string literals containing //)
    i = line.find("//")
    return line if i < 0 else line[:i]


def mutants_of_line(code):
    out = []
    for k, vs in REL.items():
        for m in re.finditer(re.escape(k), code):
            for v in vs:
                out.append(("rel", m.start(), k, v))
    for a, b in PAIRS:
        for m in re.finditer(re.escape(a), code):
            if a in ("true", "false") and (m.start() > 0 and (code[m.start() - 1].isalnum() or code[m.start() - 1] == "_")):
                continue
            out.append(("pair", m.start(), a, b))
    # negation removal
    for m in re.finditer(r"!(?=[a-zA-Z_(])", code):
        if m.start() > 0 and code[m.start() - 1] in "=<>!":
            continue
        # skip macros `name!(`
        if m.start() > 0 and (code[m.start() - 1].isalnum() or code[m.start() - 1] == "_"):
            continue
        out.append(("neg", m.start(), "!", ""))
    # integer constants
    for m in re.finditer(r"(?<![\w.#'\"])(\d+)(?![\w.'\"]|\.\d)", code):
        n = int(m.group(1))
        if n > 70000:
            continue
        out.append(("const", m.start(), m.group(1), str(n + 1)))
        if n > 0:
            out.append(("const", m.start(), m.group(1), str(n - 1)))
    # byte literals
    for m in re.finditer(r"b'(\\?.)'", code):
        ch = m.group(1)
        repl = {",": ";", ";": ",", ":": ";", "?": "!", "*": "+", "#": "@", "\"": "'", "'": None, "(": "[", ")": "]", "0": "1", "1": "0", "9": "8",
                "E": "D", "e": "d", "H": "G", "Q": "P", "B": "C", "+": "-", "-": "+", ".": ",", "@": "#", "!": "?", " ": "_", "\\n": "\\r"}.get(ch)
        if repl:
            out.append(("byte", m.start(), m.group(0), "b'%s'" % repl))
    return out


ERRSWAP = [
    ("DataOutOfRange", "IllegalParameterValue"), ("IllegalParameterValue", "DataOutOfRange"), ("DataTypeError", "ExecutionError"),
    ("MissingParameter", "ParameterNotAllowed"), ("ParameterNotAllowed", "MissingParameter"), ("UndefinedHeader", "CommandHeaderError"),
    ("OutOfMemory", "SystemError"), ("QueueOverflow", "OutOfMemory"), ("SyntaxError", "ExecutionError"), ("InvalidCharacter", "DeviceSpecificError"),
    ("SuffixNotAllowed", "SettingsConflict"), ("InvalidBlockData", "QueryError"), ("InvalidStringData", "HardwareError"), ("NumericDataError", "DataOutOfRange"),
    ("InvalidSeparator", "SyntaxError"), ("ExponentTooLarge", "DataOutOfRange"), ("TooManyDigits", "DataOutOfRange"), ("InvalidSuffix", "DataOutOfRange"),
    ("CharacterDataTooLong", "DataOutOfRange"), ("ProgramMnemonicTooLong", "DataOutOfRange"), ("SuffixTooLong", "DataOutOfRange"), ("InvalidExpression", "ExecutionError"),
    ("OperationComplete", "PowerOn"), ("NoError", "DeviceSpecificError"),
]


def mutants2_of_line(code, stripped):
    """second operator set: statement deletion, forced conditions, error-code swaps"""
    out = []
    # statement deletion: a call / assignment statement on one line
    if stripped.endswith(";") and not stripped.startswith(("let ", "return", "use ", "pub ", "const ", "static ", "type ", "break", "continue", "}", "//", "#")) and "=>" not in stripped:
        if re.match(r"^[A-Za-z_*(&]", stripped) and ("(" in stripped or "=" in stripped):
            out.append(("del", len(code) - len(code.lstrip()), code.strip(), "();"))
    m = re.match(r"^(\s*)(\}\s*else\s+)?if\s+(?!let\b)(.+?)\s*\{\s*$", code)
    if m:
        cond = m.group(3)
        pos = code.find(cond)
        out.append(("cond", pos, cond, "true"))
        out.append(("cond", pos, cond, "false"))
    m = re.match(r"^(\s*)while\s+(?!let\b)(.+?)\s*\{\s*$", code)
    if m:
        cond = m.group(2)
        out.append(("cond", code.find(cond), cond, "false"))
    for a, b in ERRSWAP:
        for mm in re.finditer(r"ErrorCode::" + a + r"\b", code):
            out.append(("errswap", mm.start(), "ErrorCode::" + a, "ErrorCode::" + b))
    return out


def main():
    root = sys.argv[1]
    cap = int(sys.argv[2]) if len(sys.argv) > 2 else 10**9
    mid = 0
    for f in FILES:
        path = os.path.join(root, f)
        if not os.path.exists(path):
            continue
        lines = open(path).read().split("\n")
        in_test = False
        skip_next = False
        depth_doc = False
        cands = []
        for i, line in enumerate(lines):
            s = line.strip()
            if s.startswith("#[cfg(test)]"):
                # `#[cfg(test)] mod x;` is one declaration; `#[cfg(test)] mod x {` runs to the end of the file
                nxt = next((l.strip() for l in lines[i + 1:] if l.strip()), "")
                if nxt.endswith(";") or not nxt.startswith("mod "):
                    skip_next = True
                else:
                    in_test = True
                continue
            if skip_next:
                skip_next = False
                continue
            if in_test:
                continue
            if not s or s.startswith("//") or s.startswith("#[") or s.startswith("#![") or s.startswith("use ") or s.startswith("pub use "):
                continue
            if "code=" in s or "doc=" in s or s.startswith("///") or s.startswith("//!"):
                continue
            code = code_part(line)
            gen = mutants2_of_line(code, s) if os.environ.get("MUT_OPS") == "2" else mutants_of_line(code)
            for (op, pos, old, new) in gen:
                # do not touch string literal contents: crude test - odd number of quotes before pos
                if code[:pos].count('"') % 2 == 1:
                    continue
                cands.append((i, op, pos, old, new))
        # spread evenly over the file if capped
        if len(cands) > cap:
            step = len(cands) / cap
            cands = [cands[int(k * step)] for k in range(cap)]
        for (i, op, pos, old, new) in cands:
            mid += 1
            line = lines[i]
            newline = line[:pos] + new + line[pos + len(old):]
            print(json.dumps({"id": mid, "file": f, "line": i + 1, "op": op, "old_line": line, "new_line": newline}))


if __name__ == "__main__":
    main()
